#!/bin/sh
# runs every registered quick (or $1=thorough) check in sequence; prints one line per property
cd "$(dirname "$0")" || exit 2
tier=${1:-quick}
rc=0
for id in $(/venv/bin/python -c "import json; print(' '.join(c['property_id'] for c in json.load(open('MANIFEST.json'))['checks']))"); do
  out=$(./check $id --tier $tier 2>&1); code=$?
  echo "$id exit=$code $(echo "$out" | grep -E '^(OK|VIOLATION|HARNESS-ERROR|KNOWN-FINDING)' | cut -c1-160 | tr '\n' ' ')"
  [ $code -ne 0 ] && rc=1
done
exit $rc
