"""Rewrites section 10 of DESIGN.md from seeded/*/meta.json."""
import glob, json, os, re
V = os.path.dirname(os.path.dirname(os.path.abspath(__file__)))
rows = []
for f in sorted(glob.glob(os.path.join(V, "seeded", "*", "meta.json"))):
    m = json.load(open(f))
    sid = m["seed_id"]
    patch = open(os.path.join(os.path.dirname(f), "patch.diff")).read()
    files = sorted(set(re.findall(r"^\+\+\+ b/(\S+)", patch, re.M)))
    notes = m.get("needs_to_manifest", "")
    short = m.get("summary") or ""
    first = m.get("checks_when_first_evaluated") or {}
    now = m["checks"]
    def verdict(d):
        return ", ".join("%s %s" % (k, "caught" if v["caught"] else "MISSED") for k, v in d.items()) or "-"
    sub = ""
    for v in now.values():
        for l in v["lines"]:
            mm = re.match(r"\s*failure in (\S+)", l)
            if mm:
                sub = mm.group(1); break
    rows.append("| %s | %s | `%s` | %s | %s | %s |" % (sid, m["property"], ", ".join(os.path.basename(x) for x in files), short.replace("|", "/"),
                                                     verdict(first) if first else "(same as now)", verdict(now) + (" by `%s`" % sub if sub else "")))
table = ("| seed | property | file(s) changed | what it breaks / needs to manifest | first verdict | verdict now |\n|---|---|---|---|---|---|\n" + "\n".join(rows))
p = os.path.join(V, "DESIGN.md")
s = open(p).read()
i = s.index("## 10. Seeded changes and the checks that catch them")
head = '''## 10. Seeded changes and the checks that catch them

Each seed was written by a fresh sub-agent that saw only the text of one property and a scratch worktree (nothing from
/verif). `vf/seedtool.py` then confirmed it independently (patch applies to HEAD, pinned baseline still passes with it,
the agent's demonstration fails with the change and passes without) and ran the registered quick check with the patch
applied to /repo (reverted straight afterwards). "first verdict" is the check as it stood when the seed arrived;
misses led to the strengthening described below the table. Everything is under `seeded/<seed>/` (patch.diff, demo.py,
notes.md, meta.json).

'''
j = s.find("**Strengthening after the first wave**", i)
tail = s[j:] if j >= 0 else "@@STRENGTHENING@@\n"
open(p, "w").write(s[:i] + head + table + "\n\n" + tail)
print(table)
