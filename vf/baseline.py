"""Run the pinned baseline (guard off) and compare with /root/.vp/BASELINE.json stable_pass."""
import json, os, subprocess, sys, tempfile
import xml.etree.ElementTree as ET
b = json.load(open('/root/.vp/BASELINE.json'))
with tempfile.TemporaryDirectory() as td:
    x = os.path.join(td, 'j.xml')
    env = dict(os.environ); env.pop('HOLOPY_VERIF', None)
    subprocess.run(['/venv/bin/python', '-m', 'pytest', '-ra', '-q', '-p', 'no:cacheprovider', '--timeout=900',
                    '--continue-on-collection-errors', '--junitxml=' + x], cwd='/repo', env=env,
                   stdout=subprocess.DEVNULL, stderr=subprocess.DEVNULL)
    passed = set()
    for tc in ET.parse(x).getroot().iter('testcase'):
        if not any(ch.tag in ('failure', 'error', 'skipped') for ch in tc):
            passed.add(tc.get('classname') + '::' + tc.get('name'))
missing = [t for t in b['stable_pass'] if t not in passed]
print('baseline: %d/%d stable tests pass' % (len(b['stable_pass']) - len(missing), len(b['stable_pass'])))
for m in missing[:20]:
    print('  NOT PASSING:', m)
sys.exit(1 if missing else 0)
