"""Confirm a seeded change independently and run the registered check against it.

usage: python vf/seedtool.py <seed-id> <property> <dir with patch.diff, demo.py, notes.md> [--tier quick]
  1. scratch worktree of /repo HEAD under /tmp: apply the patch, run the pinned baseline (must still pass),
     run the demonstration on the changed and on a clean checkout (must fail / pass);
  2. apply the patch to /repo itself, run ./check <property> --tier <tier>, undo the patch (git checkout -- .);
  3. write /verif/seeded/<seed-id>/{patch.diff, demo.py, notes.md, meta.json}.
"""
import json
import os
import shutil
import subprocess
import sys
import time

VERIF = os.path.dirname(os.path.dirname(os.path.abspath(__file__)))


def sh(cmd, cwd=None, env=None, timeout=3000):
    p = subprocess.run(cmd, cwd=cwd, env=env, shell=isinstance(cmd, str), stdout=subprocess.PIPE, stderr=subprocess.STDOUT, text=True, timeout=timeout)
    return p.returncode, p.stdout


def baseline(repo):
    import xml.etree.ElementTree as ET
    b = json.load(open("/root/.vp/BASELINE.json"))
    x = os.path.join("/tmp", "seed_junit_%d.xml" % os.getpid())
    env = dict(os.environ); env.pop("HOLOPY_VERIF", None)
    sh(["/venv/bin/python", "-m", "pytest", "-q", "-p", "no:cacheprovider", "--timeout=900", "--continue-on-collection-errors", "--junitxml=" + x], cwd=repo, env=env)
    passed = set()
    for tc in ET.parse(x).getroot().iter("testcase"):
        if not any(ch.tag in ("failure", "error", "skipped") for ch in tc):
            passed.add(tc.get("classname") + "::" + tc.get("name"))
    os.remove(x)
    missing = [t for t in b["stable_pass"] if t not in passed]
    return missing


def main():
    sid, prop, src = sys.argv[1:4]
    tier = "quick"
    extra_props = []
    phase = "both"
    for a in sys.argv[4:]:
        if a.startswith("--phase="):
            phase = a.split("=")[1]
        if a.startswith("--tier="):
            tier = a.split("=")[1]
        elif a.startswith("--also="):
            extra_props = a.split("=")[1].split(",")
    out = os.path.join(VERIF, "seeded", sid)
    os.makedirs(out, exist_ok=True)
    for f in ("patch.diff", "demo.py", "notes.md"):
        if os.path.exists(os.path.join(src, f)) and os.path.abspath(src) != os.path.abspath(out):
            shutil.copy(os.path.join(src, f), os.path.join(out, f))
    patch = os.path.join(out, "patch.diff")
    meta = {"seed_id": sid, "property": prop, "confirmed": {}, "checks": {}}
    rebased = os.path.join(out, "patch_rebased.diff")
    if phase == "2" and os.path.exists(rebased):
        # /repo has moved on under the original patch (a later fix: commit touched its context): the same
        # change, re-made by hand on the current HEAD; patch.diff stays as delivered
        patch = rebased
        meta["patch_used"] = "patch_rebased.diff"
    prev_path = os.path.join(out, "meta.json")
    if os.path.exists(prev_path):
        prev = json.load(open(prev_path))
        # keep the verdict of the checks as they were when the seed was first evaluated
        if prev.get("checks"):
            meta["checks_when_first_evaluated"] = prev.get("checks_when_first_evaluated", prev.get("checks"))
        if phase == "2":
            meta["confirmed"] = prev.get("confirmed", {})
        if "summary" in prev:
            meta["summary"] = prev["summary"]
    # ---- 1. independent confirmation in scratch worktrees
    wt, clean = "/tmp/seedchk_%s" % sid, "/tmp/seedchk_%s_clean" % sid
    if phase != "2":
        for d in (wt, clean):
            sh(["git", "-C", "/repo", "worktree", "remove", "--force", d])
        sh(["git", "-C", "/repo", "worktree", "add", "--detach", wt, "HEAD"])
        sh(["git", "-C", "/repo", "worktree", "add", "--detach", clean, "HEAD"])
    try:
      if phase != "2":
        rc, o = sh(["git", "-C", wt, "apply", patch])
        meta["confirmed"]["patch_applies"] = rc == 0
        if rc != 0:
            meta["confirmed"]["apply_output"] = o[-500:]
        else:
            missing = baseline(wt)
            meta["confirmed"]["baseline_passes_with_change"] = not missing
            meta["confirmed"]["baseline_missing"] = missing[:5]
            env = dict(os.environ)
            # the tree is given both as argv[1] and on PYTHONPATH (demos of either convention)
            rc1, o1 = sh(["/venv/bin/python", os.path.join(out, "demo.py"), wt], env=dict(env, PYTHONPATH=wt), timeout=1200)
            rc0, o0 = sh(["/venv/bin/python", os.path.join(out, "demo.py"), clean], env=dict(env, PYTHONPATH=clean), timeout=1200)
            meta["confirmed"]["demo_exit_with_change"] = rc1
            meta["confirmed"]["demo_exit_without_change"] = rc0
            meta["confirmed"]["demo_output_with_change"] = o1[-600:]
            meta["confirmed"]["demo_discriminates"] = (rc1 != 0 and rc0 == 0)
    finally:
        if phase != "2":
            for d in (wt, clean):
                sh(["git", "-C", "/repo", "worktree", "remove", "--force", d])
    if phase == "1":
        with open(os.path.join(out, "meta.json"), "w") as fh:
            json.dump(meta, fh, indent=1)
        print(json.dumps({"seed": sid, "confirmed": meta["confirmed"]}, indent=1)[:1500])
        return
    # ---- 2. registered check(s) against the change applied to /repo
    rc, o = sh(["git", "-C", "/repo", "status", "--porcelain"])
    if o.strip():
        print("refusing: /repo working tree is not clean:\n" + o)
        sys.exit(2)
    rc, o = sh(["git", "-C", "/repo", "apply", patch])
    try:
        if rc == 0:
            for p in [prop] + extra_props:
                t0 = time.time()
                rc2, o2 = sh([os.path.join(VERIF, "check"), p, "--tier", tier], cwd=VERIF, timeout=6000)
                lines = [l for l in o2.splitlines() if l.startswith(("VIOLATION", "  failure in", "HARNESS-ERROR", "OK "))]
                meta["checks"][p] = {"tier": tier, "exit": rc2, "caught": rc2 == 1, "wall_s": round(time.time() - t0, 1), "lines": [l[:300] for l in lines[:8]]}
    finally:
        sh(["git", "-C", "/repo", "checkout", "--", "."])
        # evidence files were rewritten by a run on a modified tree: restore the committed ones
        sh(["git", "-C", VERIF, "checkout", "--", "evidence"])
    rc, o = sh(["git", "-C", "/repo", "status", "--porcelain"])
    meta["repo_clean_after"] = not o.strip()
    notes = os.path.join(out, "notes.md")
    meta["needs_to_manifest"] = open(notes).read()[:1500] if os.path.exists(notes) else ""
    meta["ran"] = "vf/seedtool.py %s" % " ".join(sys.argv[1:])
    with open(os.path.join(out, "meta.json"), "w") as fh:
        json.dump(meta, fh, indent=1)
    print(json.dumps({"seed": sid, "confirmed": meta["confirmed"].get("demo_discriminates"), "baseline_ok": meta["confirmed"].get("baseline_passes_with_change"),
                      "checks": {k: (v["caught"], v["lines"][:2]) for k, v in meta["checks"].items()}}, indent=1))


if __name__ == "__main__":
    main()
