"""C11 — model parameters map to exactly the places their priors were used."""
import itertools
import math

import numpy as np
from hypothesis import strategies as st

from ..runner import Sub, Outcome, failure, TOLX
from .. import gen

PROPERTY = "C11"
ASSUMPTIONS = [
    "reference model = the generated template itself: each slot records which pool prior (by identity) or fixed "
    "value or transformation fills it; the Mapper is never consulted by the reference",
    "auto-generated names are only required to be unique and derived from one of the prior's slot paths; the exact "
    "spelling of the disambiguation suffix is not asserted",
]

NAMES = [None, None, None, "a", "b", "r", "n", "x", "0:r", "center.0"]


def _pool_prior():
    return st.fixed_dictionaries({"kind": st.sampled_from(["uniform", "gaussian", "bounded"]),
                                  "lo": gen.rounded(0.3, 0.9, 3), "w": gen.rounded(0.1, 0.8, 3), "name": st.sampled_from(NAMES)})


def slot(depth=1, allow_complex=False):
    fixed = gen.rounded(0.3, 2.0, 3).map(lambda v: {"t": "fixed", "v": v})
    p = st.integers(0, 4).map(lambda i: {"t": "p", "i": i})
    opts = [fixed, p, p]
    if depth > 0:
        opts.append(st.tuples(st.sampled_from(["mul2", "add", "sqrt", "sub_from", "div", "np.add"]), st.integers(0, 4), st.integers(0, 4), gen.rounded(1.5, 3.0, 2)).map(
            lambda t: {"t": "expr", "op": t[0], "i": t[1], "j": t[2], "c": t[3]}))
    if allow_complex:
        sub = st.one_of(fixed, p)
        opts.append(st.tuples(sub, st.one_of(gen.rounded(0.0, 0.1, 3).map(lambda v: {"t": "fixed", "v": v}), p)).map(lambda t: {"t": "complex", "re": t[0], "im": t[1]}))
    return st.one_of(*opts)


def sphere_t(layered=False):
    if layered:
        return st.fixed_dictionaries({"n": st.lists(slot(1, True), min_size=2, max_size=2), "r": st.lists(slot(1), min_size=2, max_size=2),
                                      "center": st.lists(slot(0), min_size=3, max_size=3)})
    return st.fixed_dictionaries({"n": slot(1, True), "r": slot(1), "center": st.lists(slot(1), min_size=3, max_size=3)})


def strat_map(tier):
    scat = st.one_of(
        st.fixed_dictionaries({"k": st.just("sphere"), "s": sphere_t()}),
        st.fixed_dictionaries({"k": st.just("layered"), "s": sphere_t(True)}),
        st.fixed_dictionaries({"k": st.just("spheres"), "m": st.lists(sphere_t(), min_size=1, max_size=4)}),
        st.fixed_dictionaries({"k": st.just("rigid"), "m": st.lists(st.fixed_dictionaries({"n": slot(0), "r": slot(0), "c": st.tuples(gen.rounded(-2, 2, 2), gen.rounded(-2, 2, 2), gen.rounded(3, 6, 2)).map(list)}), min_size=2, max_size=3),
                               "translation": st.lists(slot(0), min_size=3, max_size=3), "rotation": st.lists(slot(0), min_size=3, max_size=3)}),
    )
    theory = st.one_of(st.just({"t": "mie"}), st.fixed_dictionaries({"t": st.just("mielens"), "lens_angle": slot(0)}),
                       st.fixed_dictionaries({"t": st.just("amielens"), "lens_angle": slot(0), "ab": st.lists(slot(0), min_size=1, max_size=3)}))
    optics = st.fixed_dictionaries({"medium_index": slot(0), "illum_wavelen": st.one_of(slot(0), st.fixed_dictionaries({"t": st.just("dict"), "red": slot(0), "green": slot(0)})),
                                    "noise_sd": st.one_of(st.just(None), slot(0))})
    return st.fixed_dictionaries({"pool": st.lists(_pool_prior(), min_size=5, max_size=5), "scat": scat, "theory": theory, "optics": optics,
                                  "alpha": st.one_of(st.just(None), slot(0)), "vals": st.lists(gen.rounded(0.35, 1.9, 4), min_size=12, max_size=12)})


def mk_prior(d, idx=0):
    from holopy.core import prior
    # make every pool prior distinguishable by value: scatterer.parameters deep-copies its priors, so pool
    # members are recognised among the model's parameters by equality, not identity
    d = dict(d, lo=round(d["lo"] + 1e-4 * (idx + 1), 6))
    if d["kind"] == "uniform":
        return prior.Uniform(d["lo"], d["lo"] + d["w"], name=d["name"])
    if d["kind"] == "gaussian":
        return prior.Gaussian(d["lo"] + d["w"] / 2, d["w"] / 4, name=d["name"])
    return prior.BoundedGaussian(d["lo"] + d["w"] / 2, d["w"] / 4, d["lo"], d["lo"] + d["w"], name=d["name"])


class Builder:
    """builds HoloPy objects from slots and records where each pool prior is used."""

    def __init__(self, pool):
        self.pool = pool
        self.used = {}       # pool index -> list of slot paths (in traversal order)

    def build(self, s, path):
        from holopy.core import prior
        # sharing is promised between places of the scatterer; theory/optics/scaling draw from their own priors
        if "i" in s or "j" in s:
            s = dict(s)
            outside = not (":" in path or path.split(".")[0] in ("n", "r", "center", "rotation", "translation"))
            for key in ("i", "j"):
                if key in s:
                    s[key] = 3 + s[key] % 2 if outside else s[key] % 3
        t = s["t"]
        if t == "fixed":
            return s["v"]
        if t == "p":
            self.used.setdefault(s["i"], []).append(path)
            return self.pool[s["i"]]
        if t == "complex":
            re = self.build(s["re"], path + ".real")
            im = self.build(s["im"], path + ".imag")
            if not isinstance(re, prior.Prior) and not isinstance(im, prior.Prior):
                return complex(re, im)
            return prior.ComplexPrior(re, im)
        if t == "dict":
            return {"red": self.build(s["red"], path + ".red"), "green": self.build(s["green"], path + ".green")}
        op = s["op"]
        a = self.pool[s["i"]]
        self.used.setdefault(s["i"], []).append(path)
        if op == "mul2":
            return s["c"] * a
        if op == "sqrt":
            return np.sqrt(a)
        if op == "sub_from":
            return s["c"] + 3 - a
        if op == "div":
            return a / s["c"]
        b = self.pool[s["j"]]
        self.used.setdefault(s["j"], []).append(path)
        return a + b if op == "add" else np.add(a, b)


def ref_value(s, v, outside=False):
    """value the slot must take when pool prior i has value v[i]."""
    if "i" in s or "j" in s:
        s = dict(s)
        for key in ("i", "j"):
            if key in s:
                s[key] = 3 + s[key] % 2 if outside else s[key] % 3
    t = s["t"]
    if t == "fixed":
        return s["v"]
    if t == "p":
        return v[s["i"]]
    if t == "complex":
        return complex(ref_value(s["re"], v, outside), ref_value(s["im"], v, outside))
    if t == "dict":
        return {"red": ref_value(s["red"], v, outside), "green": ref_value(s["green"], v, outside)}
    op = s["op"]
    a = v[s["i"]]
    if op == "mul2":
        return s["c"] * a
    if op == "sqrt":
        return math.sqrt(a)
    if op == "sub_from":
        return s["c"] + 3 - a
    if op == "div":
        return a / s["c"]
    return a + v[s["j"]]


def build_model(case):
    from holopy.scattering import Sphere, Spheres, Mie
    from holopy.scattering.scatterer import RigidCluster
    from holopy.scattering.theory import MieLens, AberratedMieLens
    from holopy.inference import AlphaModel, ExactModel
    pool = [mk_prior(d, i) for i, d in enumerate(case["pool"])]
    B = Builder(pool)
    sc = case["scat"]

    def sphere(sd, prefix):
        n = [B.build(x, prefix + "n.%d" % i) for i, x in enumerate(sd["n"])] if isinstance(sd["n"], list) else B.build(sd["n"], prefix + "n")
        r = [B.build(x, prefix + "r.%d" % i) for i, x in enumerate(sd["r"])] if isinstance(sd["r"], list) else B.build(sd["r"], prefix + "r")
        c = [B.build(x, prefix + "center.%d" % i) for i, x in enumerate(sd["center"])]
        return Sphere(n=n, r=r, center=c)
    if sc["k"] in ("sphere", "layered"):
        scat = sphere(sc["s"], "")
    elif sc["k"] == "spheres":
        scat = Spheres([sphere(m, "%d:" % i) for i, m in enumerate(sc["m"])], warn=False)
    else:
        members = [Sphere(n=B.build(m["n"], "%d:n" % i), r=B.build(m["r"], "%d:r" % i), center=tuple(m["c"])) for i, m in enumerate(sc["m"])]
        scat = RigidCluster(Spheres(members, warn=False),
                            translation=[B.build(x, "translation.%d" % i) for i, x in enumerate(sc["translation"])],
                            rotation=[B.build(x, "rotation.%d" % i) for i, x in enumerate(sc["rotation"])])
    th = case["theory"]
    if th["t"] == "mie":
        theory = Mie()
    elif th["t"] == "mielens":
        theory = MieLens(lens_angle=B.build(th["lens_angle"], "lens_angle"))
    else:
        theory = AberratedMieLens(spherical_aberration=[B.build(x, "spherical_aberration.%d" % i) for i, x in enumerate(th["ab"])],
                                  lens_angle=B.build(th["lens_angle"], "lens_angle"))
    o = case["optics"]
    kw = dict(medium_index=B.build(o["medium_index"], "medium_index"), illum_wavelen=B.build(o["illum_wavelen"], "illum_wavelen"),
              illum_polarization=(1, 0), noise_sd=None if o["noise_sd"] is None else B.build(o["noise_sd"], "noise_sd"))
    if case["alpha"] is not None:
        model = AlphaModel(scat, alpha=B.build(case["alpha"], "alpha"), theory=theory, **kw)
    else:
        model = ExactModel(scat, theory=theory, **kw)
    return model, scat, pool, B


def close(a, b, tol=1e-12):
    if isinstance(b, dict):
        return isinstance(a, dict) and set(a) == set(b) and all(close(a[k], b[k], tol) for k in b)
    try:
        return abs(complex(a) - complex(b)) <= tol * max(1.0, abs(complex(b)))
    except Exception:
        return False


def run_map(case):
    from holopy.core import prior
    from holopy.scattering import Sphere, Spheres
    from holopy.scattering.interface import validate_scatterer
    import xarray as xr
    model, scat, pool, B = build_model(case)
    sc = case["scat"]
    labels = [sc["k"], case["theory"]["t"], "alpha" if case["alpha"] is not None else "exact"]
    used = sorted(B.used)
    names = list(model._parameter_names)
    pars = list(model._parameters)
    # 1. one parameter per distinct prior object, unique names
    ids = [next((i for i in used if pool[i] == p), None) for p in pars]
    if None in ids or len(pars) != len(used) or sorted(ids) != used:
        return Outcome(failure("parameter_count", "model has %d parameters (%r), template uses %d distinct priors %r" % (len(pars), names, len(used), used)), True, labels)
    if len(set(names)) != len(names):
        return Outcome(failure("names_not_unique", "parameter names %r" % names), True, labels)
    named = [case["pool"][i]["name"] for i in ids]
    for nm, i, given in zip(names, ids, named):
        if given is not None and ":" in given:
            continue    # names imitating the internal "member:path" scheme: only uniqueness is promised
        if given is not None:
            ok = nm == given or (nm.startswith(given + "_") and nm[len(given) + 1:].isdigit())
            unique = named.count(given) == 1 and not any(g != given and False for g in named)
            if not ok or (unique and nm != given and given not in names):
                return Outcome(failure("named_prior_name", "prior named %r appears as %r in %r" % (given, nm, names)), True, labels)
        else:
            core = nm
            paths = B.used[i]
            cand = set()
            for p_ in paths:
                cand.add(p_); cand.add(p_.split(":", 1)[-1])
                for suffix in (".real", ".imag"):
                    if p_.endswith(suffix):
                        cand.add(p_[: -len(suffix)]); cand.add(p_.split(":", 1)[-1][: -len(suffix)])
            base = core
            ok = base in cand or any(base.startswith(c + "_") and base[len(c) + 1:].isdigit() for c in cand) or \
                any(base.startswith(c) for c in cand)
            if not ok:
                return Outcome(failure("auto_name", "auto name %r is not derived from the prior's slot paths %r" % (nm, paths)), True, labels)
    # 2. values land at every place their prior was used
    v_pool = {i: case["vals"][i] for i in range(5)}
    v_list = [v_pool[i] for i in ids]
    if sc["k"] != "rigid":
        s2 = model.scatterer_from_parameters(v_list)
        members = [(s2, sc["s"], "")] if sc["k"] in ("sphere", "layered") else [(m, t, "%d:" % i) for i, (m, t) in enumerate(zip(s2.scatterers, sc["m"]))]
        if sc["k"] == "spheres" and len(s2.scatterers) != len(sc["m"]):
            return Outcome(failure("member_count", "rebuilt Spheres has %d members" % len(s2.scatterers)), True, labels)
        for obj, tmpl, pre in members:
            for key in ("n", "r"):
                want = [ref_value(x, v_pool) for x in tmpl[key]] if isinstance(tmpl[key], list) else ref_value(tmpl[key], v_pool)
                got = getattr(obj, key)
                gl = list(np.atleast_1d(got)) if isinstance(want, list) else [got]
                wl = want if isinstance(want, list) else [want]
                if len(gl) != len(wl) or not all(close(g, w) for g, w in zip(gl, wl)):
                    return Outcome(failure("value_placement", "%s%s = %r, template says %r (values %r)" % (pre, key, got, want, v_pool), slot=key, kind=sc["k"]), True, labels)
            wantc = [ref_value(x, v_pool) for x in tmpl["center"]]
            if not all(close(g, w) for g, w in zip(list(obj.center), wantc)):
                return Outcome(failure("value_placement", "%scenter = %r, template says %r" % (pre, list(obj.center), wantc), slot="center", kind=sc["k"]), True, labels)
        # dict-keyed == list-ordered
        s3 = model.scatterer_from_parameters({nm: val for nm, val in zip(names, v_list)})
        if not s3 == s2:
            return Outcome(failure("dict_vs_list", "name-keyed and list-ordered values give different scatterers"), True, labels)
        # initial guess scatterer == substituting each prior's guess
        g_pool = {i: pool[i].guess for i in range(5)}
        sg = model.initial_guess_scatterer
        for obj, tmpl, pre in ([(sg, sc["s"], "")] if sc["k"] in ("sphere", "layered") else [(m, t, "%d:" % i) for i, (m, t) in enumerate(zip(sg.scatterers, sc["m"]))]):
            want = [ref_value(x, g_pool) for x in tmpl["r"]] if isinstance(tmpl["r"], list) else [ref_value(tmpl["r"], g_pool)]
            if not all(close(g, w) for g, w in zip(list(np.atleast_1d(obj.r)), want)):
                return Outcome(failure("initial_guess", "initial-guess scatterer %sr = %r, guesses give %r" % (pre, obj.r, want)), True, labels)
        vs = validate_scatterer(scat)
        if not vs == sg:
            return Outcome(failure("validate_scatterer", "validate_scatterer(scatterer with priors) != initial-guess scatterer"), True, labels)
    else:
        s2 = model.scatterer_from_parameters(v_list)
        from holopy.core.math import rotation_matrix
        rot = [ref_value(x, v_pool) for x in sc["rotation"]]
        tr = np.array([ref_value(x, v_pool) for x in sc["translation"]], dtype=float)
        cs = np.array([m["c"] for m in sc["m"]], dtype=float)
        com = cs.mean(0)
        from .c19 import ref_rotation
        want_c = com + (cs - com) @ ref_rotation(*rot).T + tr
        got_c = np.array([np.array(m.center, dtype=float) for m in s2.scatterers])
        if got_c.shape != want_c.shape or np.abs(got_c - want_c).max() > 1e-10:
            return Outcome(failure("rigid_cluster_parameters", "scatterer from parameters has centres %r; rotation %r / translation %r applied to the template gives %r" % (
                got_c.round(4).tolist(), rot, tr.tolist(), want_c.round(4).tolist()), kind="rigid"), True, labels)
        for m, t in zip(s2.scatterers, sc["m"]):
            if not (close(m.n, ref_value(t["n"], v_pool)) and close(m.r, ref_value(t["r"], v_pool))):
                return Outcome(failure("value_placement", "rigid member n/r = %r/%r" % (m.n, m.r), slot="rigid_member", kind="rigid"), True, labels)
    # theory, alpha, optics
    th = case["theory"]
    t2 = model.theory_from_parameters(v_list)
    if type(t2) is not type(model.theory):
        return Outcome(failure("theory_type", "theory_from_parameters returns %s" % type(t2).__name__), True, labels)
    if th["t"] != "mie":
        if not close(t2.lens_angle, ref_value(th["lens_angle"], v_pool, True)):
            return Outcome(failure("value_placement", "theory lens_angle = %r, template %r" % (t2.lens_angle, ref_value(th["lens_angle"], v_pool, True)), slot="lens_angle", kind="theory"), True, labels)
    if th["t"] == "amielens":
        want = [ref_value(x, v_pool, True) for x in th["ab"]]
        if not all(close(g, w) for g, w in zip(list(np.atleast_1d(t2.spherical_aberration)), want)):
            return Outcome(failure("value_placement", "spherical_aberration = %r, template %r" % (t2.spherical_aberration, want), slot="aberration", kind="theory"), True, labels)
    from holopy.core.mapping import read_map
    opt = model._find_optics(v_list, None)
    o = case["optics"]
    for key in ("medium_index", "illum_wavelen"):
        want = ref_value(o[key], v_pool, True)
        got = opt[key]
        if isinstance(want, dict):
            got = {k: float(got.sel(illumination=k)) for k in want} if isinstance(got, xr.DataArray) else got
        if not close(got, want):
            return Outcome(failure("value_placement", "optics %s = %r, template %r" % (key, opt[key], want), slot=key, kind="optics"), True, labels)
    if o["noise_sd"] is not None:
        got = model._find_noise(v_list, None)
        if not close(got, ref_value(o["noise_sd"], v_pool, True)):
            return Outcome(failure("value_placement", "noise_sd = %r" % got, slot="noise", kind="optics"), True, labels)
    if case["alpha"] is not None:
        got = read_map(model._maps["model"], v_list)["alpha"]
        if not close(got, ref_value(case["alpha"], v_pool, True)):
            return Outcome(failure("value_placement", "alpha = %r" % got, slot="alpha", kind="model"), True, labels)
    shared = any(len(v) >= 2 for v in B.used.values())
    collide = len([n for n in named if n is not None]) != len({n for n in named if n is not None})
    transform = "expr" in repr(case["scat"])
    nontrivial = len(used) >= 2 and (shared or collide or transform)
    return Outcome(None, nontrivial, labels + (["shared"] if shared else []) + (["name_collision"] if collide else []) + (["transform"] if transform else []))


# ------------------------------------------------------------------------------------------ ties
def enum_ties(tier):
    cases = []
    for k in (2, 3, 4, 5):
        idx = list(range(k))
        for size in range(2, k + 1):
            for sub in itertools.combinations(idx, size):
                for rename in (None, "tied"):
                    cases.append({"k": k, "first": list(sub), "second": None, "rename": rename, "vals": [0.41, 0.47, 0.52, 0.55, 0.58, 0.44], "reverse": False})
                if k <= 4:
                    # the same parameter named twice in the list; a new name that another (untied) parameter already carries
                    cases.append({"k": k, "first": list(sub), "second": None, "rename": None, "vals": [0.41, 0.47, 0.52, 0.55, 0.58, 0.44], "reverse": False, "repeat": True})
                    for rename in ("alpha", "n", "0:center.0"):
                        cases.append({"k": k, "first": list(sub), "second": None, "rename": rename, "vals": [0.41, 0.47, 0.52, 0.55, 0.58, 0.44], "reverse": False})
        # two disjoint subsets in both call orders
        for sub in itertools.combinations(idx, 2):
            rest = [i for i in idx if i not in sub]
            for sub2 in itertools.combinations(rest, 2):
                for rev in (False, True):
                    cases.append({"k": k, "first": list(sub), "second": list(sub2), "rename": None, "vals": [0.41, 0.47, 0.52, 0.55, 0.58, 0.44], "reverse": rev})
    return cases


def run_ties(case):
    from holopy.core import prior
    from holopy.scattering import Sphere, Spheres, Mie
    from holopy.inference import AlphaModel
    k = case["k"]
    # k spheres whose radii are equal-but-distinct prior objects; index shared (by identity) between all; one odd prior
    n = prior.Gaussian(1.5, 0.1)
    spheres = [Sphere(n=n, r=prior.Uniform(0.4, 0.6), center=[prior.Uniform(0, 10), float(i), 5.0 + i]) for i in range(k)]
    model = AlphaModel(Spheres(spheres, warn=False), alpha=prior.Uniform(0.5, 1.0), theory=Mie(), medium_index=1.33,
                       illum_wavelen=0.66, illum_polarization=(1, 0), noise_sd=0.1)
    names0 = list(model._parameter_names)
    rnames = ["%d:r" % i for i in range(k)]
    if not all(r in names0 for r in rnames):
        return Outcome(failure("tie_setup", "expected radius parameters %r in %r" % (rnames, names0)), True, [])
    labels = ["k%d" % k, "subset_%d" % len(case["first"])]
    groups = [case["first"]] + ([case["second"]] if case["second"] else [])
    if case["reverse"]:
        groups = groups[::-1]
    # negative cases first: the model must stay unchanged
    snapshot = (list(model._parameter_names), [id(p) for p in model._parameters], repr(model._maps))
    for bad in ([rnames[0], "alpha"], [rnames[0], "does_not_exist"], [rnames[0], "0:center.0"]):
        try:
            model.add_tie(bad)
        except ValueError:
            pass
        except Exception as e:
            return Outcome(failure("tie_bad_exception", "add_tie(%r) raises %s, documented ValueError" % (bad, type(e).__name__)), True, labels)
        else:
            return Outcome(failure("tie_bad_accepted", "add_tie(%r) accepted" % (bad,)), True, labels)
        if (list(model._parameter_names), [id(p) for p in model._parameters], repr(model._maps)) != snapshot:
            return Outcome(failure("tie_bad_modified_model", "rejected add_tie(%r) modified the model" % (bad,)), True, labels)
    feed = {i: i for i in range(k)}            # radius of sphere i is fed by "representative" sphere index
    removed = 0
    for g in groups:
        cur_names = list(model._parameter_names)
        tie_names = []
        for i in g:
            rep = feed[i]
            nm = next((x for x in cur_names if x in ("%d:r" % rep, "tied")), None)
            tie_names.append("%d:r" % rep)
        before = list(model._parameter_names)
        if case.get("repeat"):
            tie_names = tie_names + [tie_names[0]]
            labels.append("repeated_entry")
        if case["rename"] in before and case["rename"] not in tie_names:
            # the new name belongs to another parameter: refused (ValueError, model unchanged) or made unique - never two
            # parameters under one name
            labels.append("new_name_taken")
            snap = (list(model._parameter_names), [id(p) for p in model._parameters], repr(model._maps))
            try:
                model.add_tie(tie_names, new_name=case["rename"])
            except ValueError:
                if (list(model._parameter_names), [id(p) for p in model._parameters], repr(model._maps)) != snap:
                    return Outcome(failure("tie_bad_modified_model", "rejected add_tie(new_name=%r) modified the model" % case["rename"]), True, labels)
                return Outcome(None, True, labels)
            after = list(model._parameter_names)
            if len(set(after)) != len(after) or len(model.parameters) != len(model._parameters):
                return Outcome(failure("tie_duplicate_name", "add_tie(%r, new_name=%r) leaves the names %r: model.parameters has %d entries for %d parameters"
                                       % (tie_names, case["rename"], after, len(model.parameters), len(model._parameters)), new_name=case["rename"]), True, labels)
            return Outcome(None, True, labels)
        model.add_tie(tie_names, new_name=case["rename"])
        after = list(model._parameter_names)
        keep = min(g)
        for i in g:
            feed[i] = keep
        removed += len(g) - 1
        if len(after) != len(names0) - removed:
            return Outcome(failure("tie_count", "after tying %r: %d parameters, expected %d" % (tie_names, len(after), len(names0) - removed)), True, labels)
        expected = [x for x in before if x not in tie_names[1:] or x == tie_names[0]]
        expected = [x for x in before if x not in set(tie_names) - {"%d:r" % keep}]
        if case["rename"]:
            expected = [case["rename"] if x == "%d:r" % keep else x for x in expected]
        if after != expected:
            return Outcome(failure("tie_names_order", "names after tie %r, expected %r" % (after, expected)), True, labels)
    # value-to-place map after the ties
    names = list(model._parameter_names)
    vals = {}
    it = iter(case["vals"])
    rvals = {}
    for nm in names:
        if nm.endswith(":r") or nm == "tied":
            v = next(it)
            vals[nm] = v
        elif nm == "alpha":
            vals[nm] = 0.77
        elif nm == "n":
            vals[nm] = 1.59
        else:
            vals[nm] = 1.0 + int(nm.split(":")[0]) if ":" in nm else 3.3
    s2 = model.scatterer_from_parameters(vals)
    for i, sph in enumerate(s2.scatterers):
        rep = feed[i]
        key = "%d:r" % rep if "%d:r" % rep in vals else "tied"
        if not close(sph.r, vals[key]):
            return Outcome(failure("tie_value_placement", "sphere %d radius %r, expected the value of %r = %r (names %r)" % (i, sph.r, key, vals[key], names)), True, labels)
        if not close(sph.n, 1.59) or not close(sph.center[0], 1.0 + i):
            return Outcome(failure("tie_untied_affected", "sphere %d n/center changed: %r %r" % (i, sph.n, list(sph.center))), True, labels)
    return Outcome(None, True, labels)


# ------------------------------------------------------------------------------------------ rebuild
def strat_rebuild(tier):
    num = gen.rounded(0.2, 3.0, 3)
    sph = st.fixed_dictionaries({"n": st.one_of(num, st.tuples(num, gen.rounded(0, 0.5, 3)).map(list), st.lists(num, min_size=2, max_size=3)),
                                 "r": num, "c": st.tuples(gen.rounded(-5, 5, 2), gen.rounded(-5, 5, 2), gen.rounded(1, 9, 2)).map(list)})
    return st.fixed_dictionaries({"kind": st.sampled_from(["sphere", "layered", "spheres", "rigid", "spheroid", "cylinder", "ellipsoid", "scatterers_nested", "janus", "capsule", "bisphere"]),
                                  "m": st.lists(sph, min_size=1, max_size=4), "rot": st.tuples(gen.rounded(0, 3, 3), gen.rounded(0, 3, 3), gen.rounded(0, 6, 3)).map(list),
                                  "tr": st.tuples(gen.rounded(-3, 3, 2), gen.rounded(-3, 3, 2), gen.rounded(-3, 3, 2)).map(list)})


def run_rebuild(case):
    from holopy.scattering import Sphere, Spheres, Spheroid, Cylinder, Ellipsoid, Scatterers, LayeredSphere
    from holopy.scattering.scatterer import RigidCluster, JanusSphere_Uniform, Capsule, Bisphere
    from .c19 import ref_rotation
    kind = case["kind"]
    labels = [kind]

    def sphere(m):
        n = m["n"]
        if isinstance(n, list) and len(n) == 2 and kind != "layered":
            n = complex(n[0], n[1]) if n[1] else n[0]
        elif isinstance(n, list):
            n = n[0]
        return Sphere(n=n, r=m["r"], center=tuple(m["c"]))
    m0 = case["m"][0]
    if kind == "sphere":
        s = sphere(m0)
    elif kind == "layered":
        s = Sphere(n=[1.5, 1.6], r=[m0["r"], m0["r"] * 1.5], center=tuple(m0["c"]))
    elif kind == "spheres":
        s = Spheres([sphere(m) for m in case["m"]], warn=False)
    elif kind == "rigid":
        s = RigidCluster(Spheres([sphere(m) for m in case["m"]], warn=False), translation=tuple(case["tr"]), rotation=tuple(case["rot"]))
    elif kind == "spheroid":
        s = Spheroid(n=1.5, r=(m0["r"], m0["r"] * 1.3), rotation=tuple(case["rot"]), center=tuple(m0["c"]))
    elif kind == "cylinder":
        s = Cylinder(n=1.5, h=m0["r"], d=m0["r"] * 0.7, rotation=tuple(case["rot"]), center=tuple(m0["c"]))
    elif kind == "ellipsoid":
        s = Ellipsoid(n=1.5, r=(m0["r"], m0["r"] * 1.3, m0["r"] * 0.8), rotation=tuple(case["rot"]), center=tuple(m0["c"]))
    elif kind == "janus":
        s = JanusSphere_Uniform(n=[1.5, 1.6], r=[m0["r"], m0["r"] * 1.2], rotation=tuple(case["rot"][:2]), center=tuple(m0["c"]))
    elif kind == "capsule":
        s = Capsule(n=1.5, h=m0["r"], d=m0["r"] * 0.7, rotation=tuple(case["rot"]), center=tuple(m0["c"]))
    elif kind == "bisphere":
        s = Bisphere(n=1.5, h=m0["r"], d=m0["r"] * 0.7, rotation=tuple(case["rot"]), center=tuple(m0["c"]))
    else:
        s = Scatterers([Spheres([sphere(m) for m in case["m"]], warn=False), Spheroid(n=1.5, r=(0.3, 0.5), center=(0, 0, 4))])
    params = s.parameters
    rebuilt = s.from_parameters(params)
    if kind == "rigid":
        if type(rebuilt) is not Spheres:
            return Outcome(failure("rigid_rebuild_type", "RigidCluster rebuilt as %s, documented Spheres" % type(rebuilt).__name__), True, labels)
        cs = np.array([m["c"] for m in case["m"]], dtype=float)
        com = cs.mean(0)
        want = com + (cs - com) @ ref_rotation(*case["rot"]).T + np.array(case["tr"])
        got = np.array([np.array(x.center, dtype=float) for x in rebuilt.scatterers])
        if np.abs(got - want).max() > 1e-12 * max(1.0, np.abs(want).max()):
            return Outcome(failure("rigid_rebuild", "rebuilt centres %r, rotated/translated template %r" % (got.tolist(), want.tolist())), True, labels)
        for a, m in zip(rebuilt.scatterers, case["m"]):
            if not close(a.r, m["r"]):
                return Outcome(failure("rigid_rebuild", "member radius changed"), True, labels)
    else:
        if type(rebuilt) is not type(s) or not rebuilt == s:
            return Outcome(failure("rebuild_not_equal", "%s.from_parameters(parameters) != original: %r vs %r" % (kind, rebuilt, s), kind=kind), True, labels)
    # parameters is a copy: mutating it must not touch the original
    before = repr(s)
    for key, val in params.items():
        if isinstance(val, list):
            val.append(99)
            val[0] = -1
        elif isinstance(val, np.ndarray):
            val[...] = -1
    if repr(s) != before:
        return Outcome(failure("parameters_share_state", "mutating %s.parameters changed the scatterer" % kind, kind=kind), True, labels)
    # the rebuilt object does not share mutable state with the original
    p2 = rebuilt.parameters
    before_r = repr(rebuilt)
    for attr in ("center", "r", "n", "rotation"):
        val = getattr(s, attr, None) if kind not in ("spheres", "rigid", "scatterers_nested") else None
        if isinstance(val, np.ndarray):
            saved = val.copy()
            val[...] = 123.0
            changed = repr(rebuilt) != before_r
            val[...] = saved
            if changed:
                return Outcome(failure("rebuilt_shares_state", "rebuilt %s shares its %s array with the original" % (kind, attr), kind=kind), True, labels)
    return Outcome(None, kind in ("spheres", "rigid", "scatterers_nested", "layered") or True, labels)


# ------------------------------------------------------------------------------------------ many parameters
def strat_many(tier):
    place = st.sampled_from(["own", "own", "own", "fixed", "shared"])
    sph = st.fixed_dictionaries({"n": place, "r": place, "c": st.lists(place, min_size=3, max_size=3)})
    return st.fixed_dictionaries({
        "spheres": st.lists(sph, min_size=2, max_size=5), "alpha": st.sampled_from(["own", "fixed"]),
        "medium_index": st.sampled_from(["own", "fixed"]), "noise_sd": st.sampled_from(["own", "fixed"]),
        "lens_angle": st.sampled_from(["mie", "own", "fixed"]), "model": st.sampled_from(["alpha", "exact"]),
        "vals": st.lists(gen.rounded(0.35, 1.9, 4), min_size=40, max_size=40, unique=True),
        "names": st.sampled_from([False, False, True]),
    })


def run_many(case):
    """every prior-valued place has its own prior object (or one shared per kind): models with up to ~30 parameters."""
    from holopy.core import prior
    from holopy.scattering import Sphere, Spheres, Mie, MieLens
    from holopy.inference import AlphaModel, ExactModel
    counter = [0]
    shared = {}
    sites = []        # (site path, prior object or None, fixed value)

    def mk(kind, how, fixed):
        if how == "fixed":
            return fixed
        if how == "shared":
            if kind not in shared:
                counter[0] += 1
                shared[kind] = prior.Uniform(0.2 + 0.001 * counter[0], 2.2 + 0.001 * counter[0])
            return shared[kind]
        counter[0] += 1
        lo = 0.2 + 0.001 * counter[0]
        nm = "q%d" % counter[0] if case["names"] and counter[0] % 3 == 0 else None
        return prior.Uniform(lo, lo + 2.0, name=nm) if counter[0] % 2 else prior.Gaussian(lo + 1.0, 0.25, name=nm)
    spheres = []
    for i, sp in enumerate(case["spheres"]):
        n = mk("n", sp["n"], 1.5); r = mk("r", sp["r"], 0.5)
        c = [mk("c%d" % j, h, 1.0 + i + j) for j, h in enumerate(sp["c"])]
        spheres.append(Sphere(n=n, r=r, center=c))
        sites += [("%d:n" % i, n), ("%d:r" % i, r)] + [("%d:center.%d" % (i, j), c[j]) for j in range(3)]
    scat = Spheres(spheres, warn=False)
    la = None if case["lens_angle"] == "mie" else mk("la", case["lens_angle"], 0.8)
    theory = Mie() if la is None else MieLens(lens_angle=la)
    mi = mk("mi", case["medium_index"], 1.33); ns = mk("ns", case["noise_sd"], 0.1)
    kw = dict(theory=theory, medium_index=mi, illum_wavelen=0.66, illum_polarization=(1, 0), noise_sd=ns)
    al = mk("al", case["alpha"], 0.8)
    model = AlphaModel(scat, alpha=al, **kw) if case["model"] == "alpha" else ExactModel(scat, **kw)
    pars = list(model._parameters)
    names = list(model._parameter_names)
    distinct = []
    for _, v in sites + [("lens_angle", la), ("medium_index", mi), ("noise_sd", ns)] + ([("alpha", al)] if case["model"] == "alpha" else []):
        if isinstance(v, prior.Prior) and not any(v is d for d in distinct):
            distinct.append(v)
    labels = [type(model).__name__, "parameters_%02d" % (10 * (len(distinct) // 10)), "spheres_%d" % len(spheres)]
    if len(pars) != len(distinct):
        return Outcome(failure("parameter_count", "%d parameters for %d distinct priors" % (len(pars), len(distinct))), True, labels)
    if len(set(names)) != len(names):
        return Outcome(failure("names_not_unique", "parameter names %r" % names), True, labels)
    # a different value for every parameter; the scatterer priors were copied, so parameters are matched to the
    # template's priors by value (all priors differ in their bounds)
    vals = case["vals"][:len(pars)]
    by_prior = []
    for d in distinct:
        idx = [i for i, p_ in enumerate(pars) if p_.renamed(None) == d.renamed(None)]
        if len(idx) != 1:
            return Outcome(failure("parameter_identity", "prior %r appears %d times among the parameters" % (d, len(idx))), True, labels)
        by_prior.append(idx[0])

    def want(v):
        if not isinstance(v, prior.Prior):
            return v
        k = next(i for i, d in enumerate(distinct) if d is v)
        return vals[by_prior[k]]
    for form in ("list", "dict"):
        arg = vals if form == "list" else {nm: v for nm, v in zip(names, vals)}
        s2 = model.scatterer_from_parameters(arg)
        for i, sph in enumerate(s2.scatterers):
            got = {"%d:n" % i: sph.n, "%d:r" % i: sph.r}
            got.update({"%d:center.%d" % (i, j): sph.center[j] for j in range(3)})
            for path, v in sites:
                if path in got and not close(got[path], want(v)):
                    return Outcome(failure("value_placement", "%s = %r, expected %r (parameter values as %s; %d parameters)" % (path, got[path], want(v), form, len(pars)),
                                           slot=path.split(":")[-1], kind="scatterer", many=True), True, labels)
        th = model.theory_from_parameters(arg)
        if la is not None and not close(th.lens_angle, want(la)):
            return Outcome(failure("value_placement", "lens_angle = %r, expected %r" % (th.lens_angle, want(la)), slot="lens_angle", kind="theory", many=True), True, labels)
        opt = model._find_optics(arg if form == "list" else [arg[nm] for nm in names], None)
        if not close(opt["medium_index"], want(mi)):
            return Outcome(failure("value_placement", "medium_index = %r, expected %r" % (opt["medium_index"], want(mi)), slot="medium_index", kind="optics", many=True), True, labels)
        nz = model._find_noise(arg if form == "list" else [arg[nm] for nm in names], None)
        if not close(nz, want(ns)):
            return Outcome(failure("value_placement", "noise_sd = %r, expected %r" % (nz, want(ns)), slot="noise", kind="optics", many=True), True, labels)
        if case["model"] == "alpha":
            from holopy.core.mapping import read_map
            got = read_map(model._maps["model"], arg if form == "list" else [arg[nm] for nm in names])["alpha"]
            if not close(got, want(al)):
                return Outcome(failure("value_placement", "alpha = %r, expected %r" % (got, want(al)), slot="alpha", kind="model", many=True), True, labels)
    # initial guess
    g = model.initial_guess_scatterer
    for i, sph in enumerate(g.scatterers):
        for path, v in sites:
            if path == "%d:r" % i and isinstance(v, prior.Prior) and not close(sph.r, v.guess):
                return Outcome(failure("initial_guess", "%s guess %r, prior guess %r" % (path, sph.r, v.guess), many=True), True, labels)
            if path == "%d:n" % i and isinstance(v, prior.Prior) and not close(sph.n, v.guess):
                return Outcome(failure("initial_guess", "%s guess %r, prior guess %r" % (path, sph.n, v.guess), many=True), True, labels)
    return Outcome(None, len(pars) > 10, labels)


SUBCHECKS = [
    Sub("value_to_place_map", strat_map, run_map, 20000, 300000,
        "scatterer template (Sphere, 2-layer Sphere, Spheres of 1-4, RigidCluster) whose n/r/center/rotation/translation "
        "slots are filled from a pool of 5 priors (optionally named from a tiny alphabet incl. colliding and path-like "
        "names), fixed numbers, ComplexPrior(real, imag) or transforms (c*p, p+q, np.add, np.sqrt, c-p, p/c); theory Mie / "
        "MieLens(lens_angle) / AberratedMieLens([...]); alpha and optics as numbers, priors or per-channel dicts. Count = "
        "distinct priors, unique names, named priors keep their name, values placed per template, dict == list, initial "
        "guess, validate_scatterer; non-trivial = >=2 priors with sharing, a name collision or a transform",
        tolerances={"rel": 1e-12}),
    Sub("many_parameters", strat_many, run_many, 3000, 40000,
        "2-5 spheres whose index, radius and centre components each carry their own prior object (or a fixed number, or one "
        "prior shared per kind), plus alpha, medium index, noise and lens angle: models with up to ~30 parameters. One "
        "parameter per distinct prior, unique names, a different value for every parameter lands at exactly the places of its "
        "prior (list-ordered and name-keyed), theory/optics/noise/alpha likewise, initial guess; non-trivial = more than 10 parameters",
        tolerances={"rel": 1e-12}),
    Sub("ties_bounded_exhaustive", None, run_ties, 0, 0,
        "k = 2..5 spheres with equal-but-distinct radius priors: every subset of size >= 2 (with and without renaming) "
        "and every pair of disjoint 2-subsets in both call orders: parameter count drops by |subset|-1, survivors keep "
        "order, new name applied, every tied radius fed by the kept parameter, untied slots unaffected; unequal/unknown "
        "names -> ValueError with the model unchanged",
        enumerate_cases=enum_ties, tolerances={}),
    Sub("rebuild_from_parameters", strat_rebuild, run_rebuild, 12000, 150000,
        "every scatterer class (Sphere, layered, Spheres, RigidCluster, Spheroid, Cylinder, Ellipsoid, Janus, Capsule, "
        "Bisphere, nested Scatterers): s.from_parameters(s.parameters) == s (RigidCluster: Spheres rotated about the "
        "centroid and translated, own z-y-z matrix), parameters is a deep copy, rebuilt object shares no arrays",
        tolerances={"rigid_abs": 1e-12}),
]
