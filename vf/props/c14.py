"""C14 — priors are proper, match their samplers, and are closed under arithmetic."""
import math
import operator

import numpy as np
from hypothesis import strategies as st

from ..runner import Sub, Outcome, failure, TOLX
from .. import gen

PROPERTY = "C14"
ASSUMPTIONS = [
    "BoundedGaussian is documented as un-normalised: only proportionality to the Gaussian inside and 0 outside is asserted",
    "half-infinite Uniform is improper by construction: asserted as constant & finite inside, -inf/0 outside",
    "statistical sub-check: Kolmogorov-Smirnov at alpha=1e-6 with n=4000 and the seed carried in the case (false-alarm "
    "probability per generated case <= 1e-6; a failure replays exactly)",
    "a derived prior draws its base priors left to right, one draw per occurrence (a prior used twice is drawn twice); "
    "the reference evaluator mirrors this documented structure with its own code",
]

_mag = st.one_of(gen.logu(1e-8, 1e8), gen.logu(1e-3, 1e3))
_signed = st.tuples(_mag, st.sampled_from([1.0, -1.0])).map(lambda t: t[0] * t[1])


def prior_spec(allow_halfinf=True):
    uni = st.tuples(_signed, _mag, st.one_of(st.none(), st.floats(0.0, 1.0))).map(
        lambda t: {"k": "uniform", "lo": t[0], "hi": t[0] + t[1], "gfrac": t[2]})
    half = st.tuples(_signed, st.sampled_from(["lo", "hi", "both"])).map(lambda t: {"k": "uniform_inf", "b": t[0], "side": t[1]})
    gau = st.tuples(st.one_of(_signed, st.just(0.0)), _mag).map(lambda t: {"k": "gaussian", "mu": t[0], "sd": t[1]})
    # the window keeps >= ~8% of the Gaussian mass: the sampler is rejection sampling (documented), which
    # needs ~1/acceptance draws; a vanishing window is a performance question, not part of the property
    bg = st.tuples(st.one_of(_signed, st.just(0.0)), _mag, st.floats(0.0, 4.0), st.floats(0.0, 4.0), st.sampled_from(["both", "lo", "hi"])).map(
        lambda t: {"k": "bounded", "mu": t[0], "sd": t[1], "a": round(max(t[2], 0.1), 4), "b": round(max(t[3], 0.1), 4), "side": t[4]})
    opts = [uni, gau, bg] + ([half] if allow_halfinf else [])
    return st.one_of(*opts)


def build_prior(sp, name=None):
    from holopy.core import prior
    k = sp["k"]
    if k == "uniform":
        g = None if sp["gfrac"] is None else sp["lo"] + sp["gfrac"] * (sp["hi"] - sp["lo"])
        if g is not None:
            g = min(max(g, sp["lo"]), sp["hi"])
        return prior.Uniform(sp["lo"], sp["hi"], guess=g, name=name)
    if k == "uniform_inf":
        lo = -np.inf if sp["side"] in ("lo", "both") else sp["b"]
        hi = np.inf if sp["side"] in ("hi", "both") else sp["b"]
        return prior.Uniform(lo, hi, name=name)
    if k == "gaussian":
        return prior.Gaussian(sp["mu"], sp["sd"], name=name)
    lo = sp["mu"] - sp["a"] * sp["sd"] if sp["side"] in ("both", "lo") else -np.inf
    hi = sp["mu"] + sp["b"] * sp["sd"] if sp["side"] in ("both", "hi") else np.inf
    if lo == hi:
        hi = lo + sp["sd"]
    return prior.BoundedGaussian(sp["mu"], sp["sd"], lo, hi, name=name)


def support(sp):
    k = sp["k"]
    if k == "uniform":
        return sp["lo"], sp["hi"]
    if k == "uniform_inf":
        return (-np.inf if sp["side"] in ("lo", "both") else sp["b"]), (np.inf if sp["side"] in ("hi", "both") else sp["b"])
    if k == "gaussian":
        return -np.inf, np.inf
    p = build_prior(sp)
    return p.lower_bound, p.upper_bound


def ref_lnpdf(sp, x):
    """harness-side log density (un-normalised for bounded, None for improper uniform)."""
    lo, hi = support(sp)
    if x < lo or x > hi:
        return -np.inf
    if sp["k"] == "uniform":
        return -math.log(sp["hi"] - sp["lo"])
    if sp["k"] == "uniform_inf":
        return None
    return -math.log(sp["sd"] * math.sqrt(2 * math.pi)) - (x - sp["mu"]) ** 2 / (2 * sp["sd"] ** 2)


# ------------------------------------------------------------------------------------------ 1,2,4,6,7
def strat_density(tier):
    return st.fixed_dictionaries({"p": prior_spec(), "u": st.lists(st.floats(-0.5, 1.5), min_size=1, max_size=5),
                                  "complex": st.sampled_from(["none", "none", "both", "real_fixed", "imag_fixed"]),
                                  "q": prior_spec(False), "v": st.floats(-50, 50)})


def run_density(case):
    from holopy.core import prior
    from holopy.scattering.errors import ParameterSpecificationError
    sp = case["p"]
    p = build_prior(sp)
    lo, hi = support(sp)
    labels = [sp["k"]]
    # evaluation points: interior, the bounds, bounds +- 1 ulp, far outside
    span = (hi - lo) if np.isfinite(hi - lo) else 10 * abs(sp.get("sd", sp.get("b", 1.0)) or 1.0)
    base = lo if np.isfinite(lo) else (hi - span if np.isfinite(hi) else -span / 2)
    pts = [base + u * span for u in case["u"]]
    for bnd in (lo, hi):
        if np.isfinite(bnd):
            pts += [bnd, np.nextafter(bnd, np.inf), np.nextafter(bnd, -np.inf), bnd + span * 10, bnd - span * 10]
    const = None
    if np.isfinite(lo) or np.isfinite(hi):
        # not-a-number lies in no interval: a prior with a bounded support gives it density 0
        pts = pts + [float("nan")]
    for x in pts:
        x = float(x)
        ln, pr = p.lnprob(x), p.prob(x)
        want = ref_lnpdf(sp, x)
        inside = lo <= x <= hi
        if not inside:
            if ln != -np.inf or pr != 0:
                return Outcome(failure("density_outside_support", "%s: lnprob(%r)=%r prob=%r outside [%r,%r]" % (sp["k"], x, ln, pr, lo, hi), kind=sp["k"]), True, labels)
            continue
        if want is None:
            # improper uniform: documented constant
            if not np.isfinite(ln) or (const is not None and ln != const):
                return Outcome(failure("improper_uniform", "lnprob not a finite constant inside: %r vs %r" % (ln, const)), True, labels)
            const = ln
            continue
        if not (ln == ln and abs(ln - want) <= 1e-12 * max(1.0, abs(want)) * TOLX):
            return Outcome(failure("lnprob_value", "%s: lnprob(%r)=%r, reference %r" % (sp["k"], x, ln, want), kind=sp["k"]), True, labels)
        if 0 < pr < 2.3e-308:
            # below the smallest normal number prob() has only a few bits left (spacing 5e-324; how exp() rounds
            # there is platform business): its logarithm carries no information about lnprob
            labels.append("subnormal_density_not_compared")
        elif pr > 0:
            if not (abs(math.log(pr) - ln) <= 1e-9 * max(1.0, abs(ln)) * TOLX):
                return Outcome(failure("lnprob_vs_log_prob", "%s: log(prob(%r))=%r but lnprob=%r" % (sp["k"], x, math.log(pr), ln), kind=sp["k"]), True, labels)
        elif ln > -700:
            return Outcome(failure("lnprob_vs_log_prob", "%s: prob(%r)=0 but lnprob=%r" % (sp["k"], x, ln), kind=sp["k"]), True, labels)
    # normalisation of proper Uniform and Gaussian by quadrature of prob()
    if sp["k"] in ("uniform", "gaussian"):
        if sp["k"] == "uniform":
            a, b = lo, hi
        else:
            a, b = sp["mu"] - 12 * sp["sd"], sp["mu"] + 12 * sp["sd"]
        xs, ws = np.polynomial.legendre.leggauss(96)
        total = 0.0
        nseg = 1 if sp["k"] == "uniform" else 24
        edges = np.linspace(a, b, nseg + 1)
        for e0, e1 in zip(edges[:-1], edges[1:]):
            xm, xr = 0.5 * (e0 + e1), 0.5 * (e1 - e0)
            total += xr * sum(w * p.prob(float(xm + xr * x)) for x, w in zip(xs, ws))
        cond = 0.0 if sp["k"] == "uniform" else 200 * np.spacing(abs(sp["mu"]) + 12 * sp["sd"]) / sp["sd"]
        if not (abs(total - 1) <= (1e-8 + cond) * TOLX):
            return Outcome(failure("normalisation", "%s density integrates to %.12g" % (sp["k"], total), kind=sp["k"]), True, labels)
    # guess inside support; scale/unscale inverse
    g = p.guess
    if not (lo <= g <= hi) or not np.isfinite(g):
        return Outcome(failure("guess_outside_support", "guess %r not in [%r, %r]" % (g, lo, hi), kind=sp["k"]), True, labels)
    if sp["k"] == "uniform" and sp["gfrac"] is not None:
        want_g = min(max(sp["lo"] + sp["gfrac"] * (sp["hi"] - sp["lo"]), sp["lo"]), sp["hi"])
        if g != want_g:
            return Outcome(failure("explicit_guess", "explicit guess %r not kept (%r)" % (want_g, g)), True, labels)
    if not (p.scale_factor > 0 and np.isfinite(p.scale_factor)):
        return Outcome(failure("scale_factor", "scale_factor %r" % p.scale_factor, kind=sp["k"]), True, labels)
    for x in pts[:3] + [g]:
        x = float(x)
        back = p.unscale(p.scale(x))
        if abs(back - x) > 4 * np.spacing(abs(x)) + 1e-300:
            return Outcome(failure("scale_unscale", "unscale(scale(%r)) = %r" % (x, back), kind=sp["k"]), True, labels)
    if not np.isfinite(p.scale(g)):
        return Outcome(failure("scale_guess", "scale(guess) not finite"), True, labels)
    # construction rejects nonsense, both directions
    bad = []
    if sp["k"] == "uniform":
        bad = [lambda: prior.Uniform(sp["hi"], sp["lo"]), lambda: prior.Uniform(sp["lo"], sp["lo"]),
               lambda: prior.Uniform(sp["lo"], sp["hi"], guess=sp["hi"] + abs(sp["hi"] - sp["lo"])),
               lambda: prior.Uniform(sp["lo"], sp["hi"], guess=sp["lo"] - abs(sp["hi"] - sp["lo"])),
               lambda: prior.Uniform(float("nan"), sp["hi"]), lambda: prior.Uniform(sp["lo"], float("nan"))]
    elif sp["k"] == "gaussian":
        bad = [lambda: prior.Gaussian(sp["mu"], 0.0), lambda: prior.Gaussian(sp["mu"], -sp["sd"]), lambda: prior.Gaussian(sp["mu"], float("nan"))]
    elif sp["k"] == "bounded":
        bad = [lambda: prior.BoundedGaussian(sp["mu"], sp["sd"], sp["mu"] + sp["sd"], sp["mu"] + 2 * sp["sd"]),
               lambda: prior.BoundedGaussian(sp["mu"], sp["sd"], sp["mu"] - 2 * sp["sd"], sp["mu"] - sp["sd"]),
               lambda: prior.BoundedGaussian(sp["mu"], sp["sd"], sp["mu"], sp["mu"]),
               lambda: prior.BoundedGaussian(sp["mu"], 0.0, sp["mu"] - 1, sp["mu"] + 1),
               lambda: prior.BoundedGaussian(sp["mu"], sp["sd"], float("nan"), sp["mu"] + 1),
               lambda: prior.BoundedGaussian(sp["mu"], sp["sd"], sp["mu"] - 1, float("nan"))]
    for i, f in enumerate(bad):
        try:
            f()
        except ParameterSpecificationError:
            continue
        except Exception as e:
            return Outcome(failure("construction_error_type", "invalid %s #%d raises %s instead of ParameterSpecificationError" % (sp["k"], i, type(e).__name__), kind=sp["k"]), True, labels)
        return Outcome(failure("construction_accepts_nonsense", "invalid %s parameters #%d accepted" % (sp["k"], i), kind=sp["k"]), True, labels)
    # complex priors
    if case["complex"] != "none":
        q = build_prior(case["q"])
        re = p if case["complex"] != "real_fixed" else 1.5
        im = q if case["complex"] != "imag_fixed" else 0.25
        cp = prior.ComplexPrior(re, im)
        labels.append("complex_" + case["complex"])
        zr = float(pts[0]) if isinstance(re, prior.Prior) else 1.5
        zi = float(q.guess + case["v"] * q.scale_factor * 0.01) if isinstance(im, prior.Prior) else 0.25
        want = (p.lnprob(zr) if isinstance(re, prior.Prior) else 0) + (q.lnprob(zi) if isinstance(im, prior.Prior) else 0)
        got = cp.lnprob(complex(zr, zi))
        if not (got == want or abs(got - want) <= 1e-12 * max(1.0, abs(want))):
            return Outcome(failure("complex_lnprob", "ComplexPrior.lnprob %r != sum of parts %r" % (got, want)), True, labels)
        pg = cp.prob(complex(zr, zi))
        if (want == -np.inf and pg != 0) or (want > -700 and abs(math.log(pg) - want) > 1e-9 * max(1, abs(want))):
            return Outcome(failure("complex_prob", "ComplexPrior.prob %r vs exp(lnprob) %r" % (pg, want)), True, labels)
        gz = cp.guess
        wantg = complex(re.guess if isinstance(re, prior.Prior) else re, im.guess if isinstance(im, prior.Prior) else im)
        if gz != wantg:
            return Outcome(failure("complex_guess", "ComplexPrior.guess %r != %r" % (gz, wantg)), True, labels)
    return Outcome(None, True, labels)


# ------------------------------------------------------------------------------------------ 3
def strat_sample(tier):
    return st.fixed_dictionaries({"p": prior_spec(), "seed": st.integers(0, 2 ** 32 - 1),
                                  "size": st.sampled_from(["none", "one", "n", "tuple", "ks"]), "n": st.integers(2, 50)})


def run_sample(case):
    from scipy import stats as sst
    sp = case["p"]
    p = build_prior(sp)
    lo, hi = support(sp)
    labels = [sp["k"], "size_" + case["size"]]
    if sp["k"] == "uniform_inf":
        # numpy cannot draw from an infinite interval; only the finite kinds have samplers with a declared distribution
        return Outcome(None, False, labels + ["improper_not_sampled"], skipped=True)
    np.random.seed(case["seed"])
    if case["size"] == "none":
        s = p.sample()
        if np.ndim(s) != 0:
            return Outcome(failure("sample_shape", "sample(size=None) has shape %r" % (np.shape(s),), kind=sp["k"]), True, labels)
        if not (lo <= float(s) <= hi):
            return Outcome(failure("sample_outside_support", "sample %r outside [%r,%r]" % (s, lo, hi), kind=sp["k"]), True, labels)
        s2 = p.sample(size=None)
        return Outcome(None, True, labels)
    n = {"one": 1, "n": case["n"], "tuple": case["n"], "ks": 4000}[case["size"]]
    size = (n,) if case["size"] == "tuple" else n
    s = np.asarray(p.sample(size))
    if s.shape != (n,):
        return Outcome(failure("sample_shape", "sample(size=%r) has shape %r" % (size, s.shape), kind=sp["k"]), True, labels)
    if not (np.all(s >= lo) and np.all(s <= hi)):
        return Outcome(failure("sample_outside_support", "samples outside [%r,%r]" % (lo, hi), kind=sp["k"]), True, labels)
    # reproducible under the numpy global seed
    np.random.seed(case["seed"])
    s2 = np.asarray(p.sample(size))
    if not np.array_equal(s, s2):
        return Outcome(failure("sample_not_reproducible", "same numpy seed gives different samples", kind=sp["k"]), True, labels)
    if case["size"] == "ks":
        # a continuous law can only be recognised where the floating-point grid is fine compared with the spread of
        # the samples: with a width of a few ulp of the location the samples are a handful of discrete values
        spread = float(np.max(s) - np.min(s)) if np.size(s) else 0.0
        grid = float(np.spacing(max(abs(float(np.max(s))), abs(float(np.min(s))))))
        if spread < 1e5 * grid:
            return Outcome(None, False, labels + ["samples_on_a_coarse_float_grid"], skipped=True)
        if sp["k"] == "uniform":
            cdf = lambda x: (x - lo) / (hi - lo)
        elif sp["k"] == "gaussian":
            cdf = lambda x: sst.norm.cdf(x, sp["mu"], sp["sd"])
        else:
            a, b = (lo - sp["mu"]) / sp["sd"], (hi - sp["mu"]) / sp["sd"]
            cdf = lambda x: sst.truncnorm.cdf(x, a, b, loc=sp["mu"], scale=sp["sd"])
        D = sst.kstest(s, cdf).statistic
        crit = math.sqrt(-math.log(1e-6 / 2) / (2 * n))
        if D > crit:
            return Outcome(failure("sample_distribution", "%s: KS distance %.4f > %.4f (n=%d)" % (sp["k"], D, crit, n), kind=sp["k"]), True, labels)
        return Outcome(None, True, labels, metrics={"ks_over_crit_" + sp["k"]: D / crit})
    return Outcome(None, True, labels)


# ------------------------------------------------------------------------------------------ 5
BIN = ["add", "sub", "mul", "div", "pow", "radd", "rsub", "rmul", "rdiv", "np.add", "np.multiply", "np.subtract",
       "np.rsubtract", "np.rdivide", "rsub", "rdiv", "pow", "pow", "pow", "rpow", "rpow"]
UN = ["neg", "np.sqrt", "np.exp", "np.log", "np.sin", "np.square"]


def expr(depth):
    leaf_p = st.integers(0, 2).map(lambda i: {"t": "p", "i": i})
    # numbers are python floats or numpy scalars (what indexing an array yields)
    leaf_n = st.one_of(st.tuples(gen.rounded(0.5, 3.0, 3), st.booleans()).map(lambda t: {"t": "n", "v": t[0], "np": t[1]}),
                       # exact integers, also negative (exponents) and large
                       st.sampled_from([-2, -1, 2, 3, 41]).map(lambda v: {"t": "n", "v": v, "np": False}),
                       # constants on other scales (lengths in metres, unit conversions) and next to the identities 0 and 1
                       st.tuples(st.sampled_from([4e-7, -3e-7, 1e-9, 2.5e-4, 1 + 4e-7, 1 - 2e-7, 1 + 1e-9, 4e6, 1e9]), st.booleans()).map(
                           lambda t: {"t": "n", "v": t[0], "np": t[1]}))
    if depth == 0:
        return leaf_p
    sub = expr(depth - 1)
    return st.one_of(leaf_p,
                     st.tuples(st.sampled_from(BIN), sub, st.one_of(sub, leaf_n)).map(lambda t: {"t": "b", "op": t[0], "a": t[1], "b": t[2]}),
                     st.tuples(st.sampled_from(UN), sub).map(lambda t: {"t": "u", "op": t[0], "a": t[1]}))


def strat_alg(tier):
    pos = st.tuples(gen.rounded(0.5, 2.0, 3), gen.rounded(0.1, 1.0, 3), st.sampled_from(["uniform", "gaussian_narrow", "bounded", "uniform_int_guess", "gaussian_int_mean"]))
    return st.fixed_dictionaries({"pool": st.lists(pos, min_size=3, max_size=3).map(lambda l: [list(t) for t in l]),
                                  "e": expr(3), "seed": st.integers(0, 2 ** 32 - 1), "size": st.sampled_from([None, 1, 5, 5, [3], [2, 3], [2, 1, 2]])})


def _pool_prior(t):
    from holopy.core import prior
    a, w, kind = t
    # positive supports so that sqrt/log/pow/div are defined
    if kind == "uniform":
        return prior.Uniform(a, a + w)
    if kind == "uniform_int_guess":
        # the guess is an exact python integer
        return prior.Uniform(1, 5, guess=int(2 + round(a)))
    if kind == "gaussian_int_mean":
        return prior.BoundedGaussian(int(2 + round(a)), 0.05 * w, 1, 6)
    if kind == "bounded":
        return prior.BoundedGaussian(a + w / 2, w, a, a + w)
    return prior.BoundedGaussian(a + 1.0, w * 0.05, a + 0.5, a + 1.5)


def build_expr(e, pool):
    if e["t"] == "p":
        return pool[e["i"]]
    if e["t"] == "n":
        return np.float64(e["v"]) if e.get("np") else e["v"]
    if e["t"] == "u":
        a = build_expr(e["a"], pool)
        op = e["op"]
        if op == "neg":
            return -a
        return {"np.sqrt": np.sqrt, "np.exp": np.exp, "np.log": np.log, "np.sin": np.sin, "np.square": np.square}[op](a)
    a, b = build_expr(e["a"], pool), build_expr(e["b"], pool)
    op = e["op"]
    if op == "add": return a + b
    if op == "sub": return a - b
    if op == "mul": return a * b
    if op == "div": return a / b
    if op == "pow": return a ** b
    if op == "rpow": return b ** a
    if op == "radd": return b + a
    if op == "rsub": return b - a
    if op == "rmul": return b * a
    if op == "rdiv": return b / a
    if op == "np.add": return np.add(a, b)
    if op == "np.multiply": return np.multiply(a, b)
    if op == "np.rsubtract": return np.subtract(b, a)
    if op == "np.rdivide": return np.true_divide(b, a)
    return np.subtract(a, b)


def ill_conditioned(e, leafval):
    """True if rounding the leaves by a few ulp changes the value of the expression beyond the comparison tolerance (or out
    of the real numbers): a branch point such as log(p/p) ** q, where p/p is 1 or 1 - 1e-16 depending on how the quotient
    is formed.  Nothing about the library can be concluded from such a point."""
    try:
        with np.errstate(all="ignore"):
            base = eval_expr(e, leafval)
            up, dn = 1 + 2.0 ** -50, 1 - 2.0 ** -50
            for fl, fn in ((up, up), (dn, dn), (up, dn), (dn, up), (1.0, up), (1.0, dn)):
                # every leaf (fl) and every intermediate result (fn) moved by a few ulp, together and against each other
                # (moved together, the shifts cancel in a quotient)
                v = eval_expr(e, lambda i, fl=fl: np.asarray(leafval(i)) * fl, jitter=fn)
                if np.iscomplexobj(v) or not np.all(np.isfinite(np.asarray(v, dtype=float))) or not _close(v, base):
                    return True
    except Exception:
        return True
    return False


def eval_expr(e, leafval, jitter=None):
    """reference evaluator: leafval(i) is called once per prior occurrence, in left-to-right order."""
    if jitter is not None and e["t"] in ("u", "b"):
        v = eval_expr(e, leafval) if False else _eval_node(e, leafval, jitter)
        return np.asarray(v) * jitter if not isinstance(v, complex) else v
    return _eval_node(e, leafval, None)


def _int_range(v):
    """numpy computes integer operands in int64 and wraps silently; an exact python integer beyond that range means the
    expression (an integer guess to a large integer power) is outside numpy's integer arithmetic."""
    if isinstance(v, int) and not isinstance(v, bool) and abs(v) > 2 ** 62:
        raise OverflowError("integer result beyond int64")
    return v


def _eval_node(e, leafval, jitter):
    if e["t"] == "p":
        return leafval(e["i"])
    if e["t"] == "n":
        return e["v"]
    if e["t"] == "u":
        a = eval_expr(e["a"], leafval, jitter)
        op = e["op"]
        if op == "neg":
            return -a
        if isinstance(a, int) and not isinstance(a, bool) and abs(a) > 2 ** 62:
            a = float(a)          # an exact python integer beyond int64 (integer guess to an integer power)
        return {"np.sqrt": np.sqrt, "np.exp": np.exp, "np.log": np.log, "np.sin": np.sin, "np.square": np.square}[op](a)
    op = e["op"]
    if op in ("radd", "rsub", "rmul", "rdiv"):
        # python evaluates build_expr(a) then build_expr(b) (our construction order), but the *derived prior* stores
        # operands in the order of the reflected operation; sampling order follows the stored order
        pass
    a = eval_expr(e["a"], leafval, jitter)
    b = eval_expr(e["b"], leafval, jitter)
    if op in ("add", "radd", "np.add"): return _int_range(a + b)
    if op == "sub": return _int_range(a - b)
    if op in ("rsub", "np.rsubtract"): return _int_range(b - a)
    if op in ("mul", "rmul", "np.multiply"): return _int_range(a * b)
    if op == "div": return _int_range(a / b)
    if op in ("rdiv", "np.rdivide"): return _int_range(b / a)
    if op == "pow": return _int_range(a ** b)
    if op == "rpow": return _int_range(b ** a)
    return _int_range(a - b)


def run_alg(case):
    from holopy.core import prior
    pool = [_pool_prior(t) for t in case["pool"]]
    e = case["e"]
    labels = ["depth_%d" % _depth(e)]
    # keep clear of expressions whose exact integer value is astronomically large (41 ** 3 ** 41 ...): evaluate once
    # in floating point, where overflow is an immediate OverflowError
    def _floaty(x):
        return float(x) if isinstance(x, (int, np.integer)) and not isinstance(x, bool) else x
    try:
        with np.errstate(all="ignore"):
            probe = eval_expr(_float_leaves(e), lambda i: float(pool[i].guess))
        if not isinstance(probe, complex) and np.isfinite(probe) and abs(probe) > 1e60:
            return Outcome(None, False, labels + ["domain_error"], skipped=True)
    except (ZeroDivisionError, OverflowError, ValueError):
        return Outcome(None, False, labels + ["domain_error"], skipped=True)
    try:
        d = build_expr(e, pool)
    except TypeError as ex:
        # only multiplication by exactly 0 / unsupported types may raise; our grammar never produces them
        return Outcome(failure("algebra_typeerror", "valid expression raised TypeError: %s" % ex), True, labels)
    if not isinstance(d, prior.Prior):
        return Outcome(failure("algebra_type", "expression of priors is %r, not a Prior" % type(d)), True, labels)
    # guess.  Expressions whose value at the guesses is not a finite real number (negative base to a
    # fractional power, log of a negative number, division by zero) are outside the arithmetic's domain.
    try:
        with np.errstate(all="ignore"):
            want_g = eval_expr(e, lambda i: pool[i].guess)
    except (ZeroDivisionError, OverflowError):
        return Outcome(None, False, labels + ["domain_error"], skipped=True)
    except ValueError as ex:
        if "negative integer powers" in str(ex):
            # numpy's own rule for integer arrays/scalars (reached through np.square etc. of an integer guess)
            return Outcome(None, False, labels + ["domain_error"], skipped=True)
        raise
    if isinstance(want_g, int) and not isinstance(want_g, bool) and abs(want_g) > 2 ** 62:
        want_g = float(want_g)        # an exact python integer beyond int64 (integer guess to an integer power)
    if isinstance(want_g, complex) or not np.isfinite(want_g):
        return Outcome(None, False, labels + ["domain_error"], skipped=True)
    try:
        with np.errstate(all="ignore"):
            got_g = d.guess
    except ValueError as ex:
        if "negative integer powers" in str(ex):
            # numpy's own rule for integer operands (an integer guess summed by np.add, then raised to a negative integer)
            return Outcome(None, False, labels + ["domain_error"], skipped=True)
        raise
    except TypeError as ex:
        if "ufunc" in str(ex) and "type int" in str(ex):
            # numpy's own rule: a python integer beyond int64 (an integer guess to the 41st power) is not accepted by ufuncs
            return Outcome(None, False, labels + ["domain_error"], skipped=True)
        raise
    except (ZeroDivisionError, OverflowError):
        # the library divides as a * (1/b) with python floats, where a zero-valued sub-expression raises although
        # numpy in the reference quietly produced inf: division by zero is outside the arithmetic's domain
        return Outcome(None, False, labels + ["domain_error"], skipped=True)
    if not _close(got_g, want_g):
        if ill_conditioned(e, lambda i: pool[i].guess):
            return Outcome(None, False, labels + ["ill_conditioned_expression"], skipped=True)
        return Outcome(failure("derived_guess", "derived guess %r != operation on base guesses %r" % (got_g, want_g)), True, labels)
    # samples: the same numpy seed, leaves drawn in the order the derived prior stores them
    size = tuple(case["size"]) if isinstance(case["size"], list) else case["size"]
    if isinstance(size, tuple):
        labels.append("tuple_size_%dd" % len(size))
    order = []
    _leaf_order(d, order, prior)
    np.random.seed(case["seed"])
    try:
        with np.errstate(all="ignore"):
            got_s = d.sample(size)
    except (ZeroDivisionError, OverflowError):
        return Outcome(None, False, labels + ["domain_error_in_sample"], skipped=True)
    if np.iscomplexobj(got_s):
        return Outcome(None, False, labels + ["domain_error_in_sample"], skipped=True)
    np.random.seed(case["seed"])
    draws = [bp.sample(size) for bp in order]
    it = iter(draws)
    try:
        with np.errstate(all="ignore"):
            want_s = _eval_stored(d, it, prior, size)
    except (ZeroDivisionError, OverflowError):
        return Outcome(None, False, labels + ["domain_error_in_sample"], skipped=True)
    if np.iscomplexobj(want_s):
        return Outcome(None, False, labels + ["domain_error_in_sample"], skipped=True)
    if np.shape(got_s) != (() if size is None else (size,) if not isinstance(size, tuple) else size):
        return Outcome(failure("derived_sample_shape", "sample(size=%r) of a derived prior has shape %r" % (size, np.shape(got_s))), True, labels)
    if not _close(got_s, want_s):
        return Outcome(failure("derived_samples", "derived samples %r != operation on base samples %r" % (np.asarray(got_s).tolist(), np.asarray(want_s).tolist())), True, labels)
    # the stored structure must itself be the expression we wrote: evaluate both on the same leaf values
    vals = {id(p): 1.1 + 0.37 * i for i, p in enumerate(pool)}
    try:
        with np.errstate(all="ignore"):
            a = eval_expr(e, lambda i: vals[id(pool[i])])
            b = _eval_stored(d, None, prior, None, lambda bp: vals[id(bp)])
    except (ZeroDivisionError, OverflowError):
        return Outcome(None, _depth(e) >= 2, labels)
    if isinstance(a, complex) or isinstance(b, complex):
        return Outcome(None, _depth(e) >= 2, labels)
    if not _close(a, b):
        if ill_conditioned(e, lambda i: vals[id(pool[i])]):
            return Outcome(None, False, labels + ["ill_conditioned_expression"], skipped=True)
        return Outcome(failure("derived_structure", "derived prior evaluates to %r on fixed leaf values, expression gives %r" % (b, a)), True, labels)
    nontrivial = _depth(e) >= 2
    return Outcome(None, nontrivial, labels)


def _float_leaves(e):
    if e["t"] == "n":
        return dict(e, v=float(e["v"]), np=False)
    if e["t"] == "p":
        return e
    out = dict(e, a=_float_leaves(e["a"]))
    if "b" in e:
        out["b"] = _float_leaves(e["b"])
    return out


def _depth(e):
    if e["t"] in ("p", "n"):
        return 0
    return 1 + max(_depth(e["a"]), _depth(e["b"]) if "b" in e else 0)


def _close(a, b):
    a, b = np.asarray(a, dtype=complex), np.asarray(b, dtype=complex)
    if a.shape != b.shape:
        return False
    both_nan = np.isnan(a) & np.isnan(b)
    with np.errstate(all="ignore"):
        ok = (np.abs(a - b) <= 1e-12 * np.maximum(1.0, np.abs(b))) | both_nan | ((a == b))
    return bool(np.all(ok))


def _leaf_order(d, out, prior):
    if isinstance(d, prior.TransformedPrior):
        for bp in d.base_prior:
            if isinstance(bp, prior.Prior):
                _leaf_order(bp, out, prior)
    else:
        out.append(d)


def _eval_stored(d, it, prior, size, fixed=None):
    """evaluate the derived prior's stored tree with our own recursion (not TransformedPrior.sample)."""
    if not isinstance(d, prior.Prior):
        return d if size is None else np.full(size, d)
    if not isinstance(d, prior.TransformedPrior):
        return fixed(d) if fixed is not None else next(it)
    args = [_eval_stored(bp, it, prior, size, fixed) for bp in d.base_prior]
    if size is None:
        return d.transformation(*args)
    return np.array([d.transformation(*s) for s in zip(*args)])


# identities and rejections --------------------------------------------------------------------
def strat_ident(tier):
    return st.fixed_dictionaries({"p": prior_spec(False), "k": gen.rounded(-5, 5, 3), "arr": st.lists(gen.rounded(0.5, 3, 2), min_size=1, max_size=4)})


def run_ident(case):
    from holopy.core import prior
    p = build_prior(case["p"])
    labels = [case["p"]["k"]]
    ident = [("p+0", lambda: p + 0), ("0+p", lambda: 0 + p), ("p*1", lambda: p * 1), ("1*p", lambda: 1 * p), ("p-0", lambda: p - 0),
             ("p+0.0", lambda: p + 0.0), ("p*1.0", lambda: p * 1.0), ("p/1", lambda: p / 1),
             # numbers that are numpy scalars (what indexing an array gives), on either side
             ("p+np.float64(0)", lambda: p + np.float64(0)), ("np.float64(0)+p", lambda: np.float64(0) + p),
             ("p*np.int64(1)", lambda: p * np.int64(1)), ("np.int64(1)*p", lambda: np.int64(1) * p), ("np.float64(1)*p", lambda: np.float64(1.0) * p)]
    for nm, f in ident:
        r = f()
        if r is not p:
            return Outcome(failure("identity_not_self", "%s does not return the prior itself (%r)" % (nm, type(r).__name__), expr=nm), True, labels)
    must_raise = [("p*0", lambda: p * 0), ("0*p", lambda: 0 * p), ("p*0.0", lambda: p * 0.0),
                  ("p*np.float64(0)", lambda: p * np.float64(0)), ("np.float64(0)*p", lambda: np.float64(0) * p), ("np.int64(0)*p", lambda: np.int64(0) * p), ("p+'a'", lambda: p + "a"), ("p*[1]", lambda: p * [1]),
                  ("p*1j", lambda: p * 1j), ("p+None", lambda: p + None), ("p*'a'", lambda: p * "a"), ("p+[1,2]", lambda: p + [1, 2])]
    for nm, f in must_raise:
        try:
            f()
        except TypeError:
            continue
        except Exception as e:
            return Outcome(failure("unsupported_wrong_exception", "%s raises %s, documented TypeError" % (nm, type(e).__name__), expr=nm), True, labels)
        return Outcome(failure("unsupported_accepted", "%s does not raise" % nm, expr=nm), True, labels)
    arr = np.array(case["arr"])
    for nm, r in (("p+array", p + arr), ("p*array", p * (arr + 1.5))):
        if not isinstance(r, np.ndarray) or r.shape != arr.shape or not all(isinstance(x, prior.Prior) for x in r):
            return Outcome(failure("array_operand", "%s is not an array of priors" % nm), True, labels)
    k = case["k"]
    if k not in (0, 1):
        d = p * k
        if not isinstance(d, prior.TransformedPrior) or not _close(d.guess, p.guess * k):
            return Outcome(failure("scalar_multiple", "p*%r guess %r" % (k, getattr(d, "guess", None))), True, labels)
    # updated() and generate_guess()
    from holopy.core.metadata import xr  # noqa
    np.random.seed(3)
    g1 = prior.generate_guess([p, p], nguess=7, scaling=0.5, seed=11)
    g2 = prior.generate_guess([p, p], nguess=7, scaling=0.5, seed=11)
    if g1.shape != (7, 2) or not np.array_equal(g1, g2):
        return Outcome(failure("generate_guess", "shape %r or not reproducible for a seed" % (g1.shape,)), True, labels)
    np.random.seed(11)
    raw = p.sample(size=7)
    if not _close(g1[:, 0], p.guess + 0.5 * (raw - p.guess)):
        return Outcome(failure("generate_guess_scaling", "guesses are not guess + scaling*(sample-guess)"), True, labels)
    return Outcome(None, True, labels)


SUBCHECKS = [
    Sub("density_support_guess_scaling", strat_density, run_density, 6000, 120000,
        "Uniform (finite and half-infinite), Gaussian, BoundedGaussian (one- and two-sided), ComplexPrior (free/fixed "
        "parts), parameters over 1e-8..1e8: lnprob == log(prob) and == harness formula at interior points, the bounds, "
        "bounds +-1 ulp, far outside; Gauss-Legendre normalisation; guess in support; scale/unscale inverse; "
        "nonsensical constructor arguments rejected with ParameterSpecificationError",
        tolerances={"lnprob_rel": 1e-12, "normalisation": 1e-8}),
    Sub("samplers", strat_sample, run_sample, 2000, 40000,
        "size None/1/n/(n,): shape, support, reproducibility under the numpy seed; n=4000 KS test against the declared "
        "CDF (truncated normal for BoundedGaussian) at alpha=1e-6",
        tolerances={"ks_alpha": 1e-6}),
    Sub("algebra", strat_alg, run_alg, 4000, 80000,
        "expression trees of depth <=3 over + - * / ** (incl. reflected forms), unary -, np.sqrt/exp/log/sin/square, "
        "np.add/multiply/subtract mixing three positive-support priors and numbers: derived guess == expression of base "
        "guesses; derived samples == stored expression applied to base samples drawn left to right under the same "
        "seed; stored structure == the written expression on fixed leaf values; non-trivial = depth >= 2",
        tolerances={"rel": 1e-12}),
    Sub("identities_and_rejections", strat_ident, run_ident, 2000, 30000,
        "p+0, 0+p, p*1, 1*p, p-0, p/1 return p itself; p*0, 0*p and str/list/complex/None operands raise TypeError; "
        "ndarray operands give arrays of priors; generate_guess shape/seed/scaling",
        tolerances={}),
]
