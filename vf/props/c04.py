"""C04 — results depend only on dimensionless ratios (unit-agnostic)."""
import math

import numpy as np
from hypothesis import strategies as st

from ..runner import Sub, Outcome, failure, TOLX
from .. import gen

PROPERTY = "C04"
ASSUMPTIONS = [
    "every length of a case (wavelength, radii, thicknesses, centres, pixel spacing, origin, point coordinates) is "
    "derived from the dimensionless case by one multiplication with the length unit, so changing the unit scales "
    "all of them by the same factor up to one rounding each",
    "no bitwise equality is demanded (only powers of two would allow it); tolerances are relative to max|field|",
]

KINDS = ["sphere", "layered", "cluster_mie", "cluster_ms", "spheroid", "cylinder", "mielens", "amielens", "lens"]
# Tolerances.  The closed-form theories evaluate smooth expressions of the dimensionless inputs: a rescaling
# perturbs every input by at most one rounding and the result by ~ x * eps (x <= ~1e3): 1e-10.
# The two iterative solvers do not: the T-matrix inversion amplifies a one-ulp input perturbation by its condition
# number, and Multisphere additionally makes discrete decisions (iteration count against `eps`, the Wiscombe-type
# cluster truncation order via nint()) that a one-ulp perturbation can flip.  For these the tolerance is
#   max(floor, 30 * measured response of this very case to a +-1, 3 ulp change of the wavelength)
# where the floor is the granularity of the stopping rules actually in force (see MS_OPTS).
# T-matrix floor: ampld.lp.f nudges every angle by EPS=1e-7 rad away from pi/2 and pi ("IF (PHIL.LT.PIN) PHIL=PHIL+EPS",
# else -EPS): a point mathematically on such a line lands on either side by rounding, a step of 2e-7 rad in the
# direction at which the amplitude matrix is evaluated
# Mie floor: the full-radial-dependence fields come from SBESJY, which normalises its recurrence by j_0(kr) down to
# |j_0| = sqrt(ACCUR) = 1e-7 before switching to j_1: just above that threshold the relative error is eps/1e-7 = 2e-9
TOL = {"mie": 1e-8, "tmatrix": 2e-6, "mielens": 1e-10, "amielens": 1e-10, "lens": 1e-10}
# Multisphere option sets: floor = 3*sqrt(eps) for the iteration stopping rule (eps bounds the squared residual),
# and for the converged set the truncation error of the cluster expansion at the Wiscombe order (~1e-7, one order
# more or less changes the field by that much)
MS_OPTS = {"default": (False, 3e-3), "tight": (True, 1e-4), "converged": ("converged", 1e-5)}


def strat(tier):
    side = 6 if tier == "quick" else 16
    u = st.one_of(st.floats(-6.0, 6.0), st.integers(-20, 20).map(lambda i: i * math.log10(2.0)),
                  st.sampled_from([-6.0, 6.0, -3.0, 3.0]))
    return st.tuples(gen.case_strategy(KINDS, max_side=side, any_norm=True), u,
                     st.sampled_from(["scale", "scale", "reduce"]),
                     st.sampled_from(["default", "tight", "converged", "converged"])).map(
        lambda t: dict(t[0], u=t[1], mode=t[2], ms_opts=t[3]))


def _all_results(case, o):
    from holopy.scattering import calc_holo, calc_field, calc_intensity, calc_scat_matrix, calc_cross_sections
    det, sc = case["det"], case["sc"]
    unit = o["wl"] / o["nm"]
    d = gen.build_detector(det, unit)
    s, th, info = gen.build_scene(sc, o, det)
    kw = gen.optics_kwargs(o)
    out = {}
    out["field"] = gen.flatten(calc_field(d, s, theory=th, **kw), gen.detector_points_xyz(det, unit))[1]
    out["holo"] = gen.flatten(calc_holo(d, s, theory=th, scaling=0.8, **kw), gen.detector_points_xyz(det, unit))[1]
    out["intensity"] = gen.flatten(calc_intensity(d, s, theory=th, **kw), gen.detector_points_xyz(det, unit))[1]
    t = sc["th"]["t"]
    if t in ("mie", "ms", "tmatrix") and not (t == "mie" and sc["kind"] == "cluster"):
        out["scat_matrix"] = calc_scat_matrix(d, s, o["nm"], o["wl"], theory=th).values
    if t == "mie" and sc["kind"] in ("sphere", "layered"):
        out["cross_sections"] = calc_cross_sections(s, theory=th, **kw).values
    return out


def run(case):
    o = case["o"]
    sc = case["sc"]
    t = sc["th"]["t"]
    lab = gen.scene_label(sc)
    labels = [lab, case["mode"]]
    if case["mode"] == "scale":
        f = 10.0 ** case["u"]
        o2 = dict(o, wl=o["wl"] * f)
        labels.append("decades_%d" % int(abs(case["u"])))
    else:
        f = 1.0
        o2 = dict(o, nm=1.0, wl=o["wl"] / o["nm"])
    noise = 0.0
    if t == "ms":
        # detector outside the sphere circumscribing the cluster with a margin (as in C09): inside it the
        # cluster-centred expansion does not converge and the value is series noise
        opt = case.get("ms_opts", "default")
        sc = dict(sc, th=dict(sc["th"], tight=MS_OPTS[opt][0]), pl=dict(sc["pl"], kgap=40.0 + sc["pl"]["kgap"]))
        case = dict(case, sc=sc)
        labels.append("ms_" + opt)
    try:
        a = _all_results(case, o)
        b = _all_results(case, o2)
        if t in ("ms", "tmatrix") or sc["kind"] == "layered":
            # layered spheres: the Yang recursion loses the real part of a_n for small x (C03 known finding), which
            # makes the cross sections themselves uncertain at that level
            for j in (1, -1, 3):
                c = _all_results(case, dict(o, wl=o["wl"] * (1 + j * 2.0 ** -52)))
                for key in a:
                    va, vc = np.asarray(a[key]), np.asarray(c[key])
                    if key == "cross_sections":
                        noise = max(noise, np.max(np.abs(vc[:3] - va[:3])) / abs(va[2]), abs(vc[3] - va[3]))
                    else:
                        noise = max(noise, np.abs(vc - va).max() / max(np.abs(va).max(), 1e-300))
    except Exception as e:
        if type(e).__name__ == "MultisphereFailure":
            return Outcome(None, False, labels + ["MultisphereFailure"], skipped=True)
        raise
    floor = MS_OPTS[case.get("ms_opts", "default")][1] if t == "ms" else TOL[t]
    if not (t in ("ms", "tmatrix") or sc["kind"] == "layered"):
        # closed-form theories: measure the case's own response to one ulp only when the floor is exceeded
        # (narrow resonances of large spheres amplify a rounding of the size parameter)
        def _worst():
            w = 0.0
            for key in a:
                va, vb = np.asarray(a[key]), np.asarray(b[key])
                if key == "cross_sections":
                    continue
                w = max(w, np.abs(vb - va).max() / max(np.abs(va).max(), 1.0 if key == "holo" else 1e-300))
            return w
        if _worst() > floor:
            for j in (1, -1, 3):
                c = _all_results(case, dict(o, wl=o["wl"] * (1 + j * 2.0 ** -52)))
                for key in a:
                    va, vc = np.asarray(a[key]), np.asarray(c[key])
                    if key == "cross_sections":
                        noise = max(noise, np.max(np.abs(vc[:3] - va[:3])) / abs(va[2]), abs(vc[3] - va[3]))
                    else:
                        noise = max(noise, np.abs(vc - va).max() / max(np.abs(va).max(), 1e-300))
            labels.append("measured_one_ulp_response")
    tol = max(floor, 30 * noise) * TOLX
    if noise > 1e-3:
        # the case itself is numerically unstable to one ulp: nothing can be concluded from it
        return Outcome(None, False, labels + ["unstable_to_one_ulp"], skipped=True)
    met = {}
    for key in a:
        va, vb = np.asarray(a[key]), np.asarray(b[key])
        if key == "cross_sections":
            fac = np.array([f * f, f * f, f * f, 1.0])
            if case["mode"] == "reduce":
                fac = np.ones(4)
            ext = abs(va[2])
            err = max(np.max(np.abs(vb[:3] / fac[:3] - va[:3])) / ext, abs(vb[3] - va[3]))
        else:
            scale = max(np.abs(va).max(), 1e-300)
            if key == "holo":
                scale = max(scale, 1.0)
            err = np.abs(vb - va).max() / scale
        met["%s_%s_%s" % (t, key, case["mode"])] = err
        if not np.isfinite(err) or err > tol:
            return Outcome(failure("unit_dependence" if case["mode"] == "scale" else "index_reduction",
                                   "%s of %s changes by %.3g (rel) when %s" % (
                                       key, lab, err, "all lengths are multiplied by 10^%.3f" % case["u"] if case["mode"] == "scale"
                                       else "(n, n_m, wl) -> (n/n_m, 1, wl/n_m)"),
                                   theory=t, quantity=key), True, labels)
    dev = np.abs(a["holo"] - 1).max()
    nontrivial = (case["mode"] == "reduce" and o["nm"] != 1.0 or abs(case["u"]) >= 1) and dev > 1e-3
    return Outcome(None, nontrivial, labels, metrics=met)


SUBCHECKS = [
    Sub("scale_and_index_reduction", strat, run, 3000, 50000,
        "all scene kinds/theories (Mie, layered, Mie superposition, Multisphere, Tmatrix spheroid/cylinder, MieLens, "
        "AberratedMieLens, Lens(Mie)); factor 10^u with u uniform in [-6,6] or an exact power of two; or the reduction "
        "(n,n_m,L)->(n/n_m,1,L/n_m); compares field, hologram, intensity, scattering matrix, cross sections (x factor^2); "
        "non-trivial = |u|>=1 (or n_m != 1) and the hologram deviates from 1 by >1e-3",
        tolerances=dict(TOL, ms_floor_by_options={k: v[1] for k, v in MS_OPTS.items()}, iterative_solvers="max(floor, 30 x response to +-1,3 ulp of the wavelength)")),
]
