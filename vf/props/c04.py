"""C04 — results depend only on dimensionless ratios (unit-agnostic)."""
import math

import numpy as np
from hypothesis import strategies as st

from ..runner import Sub, Outcome, failure, TOLX
from .. import gen

PROPERTY = "C04"
ASSUMPTIONS = [
    "every length of a case (wavelength, radii, thicknesses, centres, pixel spacing, origin, point coordinates) is "
    "derived from the dimensionless case by one multiplication with the length unit, so changing the unit scales "
    "all of them by the same factor up to one rounding each",
    "no bitwise equality is demanded (only powers of two would allow it); tolerances are relative to max|field|",
]

KINDS = ["sphere", "layered", "cluster_mie", "cluster_ms", "spheroid", "cylinder", "mielens", "amielens", "lens"]
TOL = {"mie": 1e-10, "ms": 3e-6, "tmatrix": 1e-9, "mielens": 1e-10, "amielens": 1e-10, "lens": 1e-10}


def strat(tier):
    side = 6 if tier == "quick" else 16
    u = st.one_of(st.floats(-6.0, 6.0), st.integers(-20, 20).map(lambda i: i * math.log10(2.0)),
                  st.sampled_from([-6.0, 6.0, -3.0, 3.0]))
    return st.tuples(gen.case_strategy(KINDS, max_side=side, any_norm=True), u,
                     st.sampled_from(["scale", "scale", "reduce"])).map(lambda t: dict(t[0], u=t[1], mode=t[2]))


def _all_results(case, o):
    from holopy.scattering import calc_holo, calc_field, calc_intensity, calc_scat_matrix, calc_cross_sections
    det, sc = case["det"], case["sc"]
    unit = o["wl"] / o["nm"]
    d = gen.build_detector(det, unit)
    s, th, info = gen.build_scene(sc, o, det)
    kw = gen.optics_kwargs(o)
    out = {}
    out["field"] = gen.flatten(calc_field(d, s, theory=th, **kw), gen.detector_points_xyz(det, unit))[1]
    out["holo"] = gen.flatten(calc_holo(d, s, theory=th, scaling=0.8, **kw), gen.detector_points_xyz(det, unit))[1]
    out["intensity"] = gen.flatten(calc_intensity(d, s, theory=th, **kw), gen.detector_points_xyz(det, unit))[1]
    t = sc["th"]["t"]
    if t in ("mie", "ms", "tmatrix") and not (t == "mie" and sc["kind"] == "cluster"):
        out["scat_matrix"] = calc_scat_matrix(d, s, o["nm"], o["wl"], theory=th).values
    if t == "mie" and sc["kind"] in ("sphere", "layered"):
        out["cross_sections"] = calc_cross_sections(s, theory=th, **kw).values
    return out


def run(case):
    o = case["o"]
    sc = case["sc"]
    t = sc["th"]["t"]
    lab = gen.scene_label(sc)
    labels = [lab, case["mode"]]
    if case["mode"] == "scale":
        f = 10.0 ** case["u"]
        o2 = dict(o, wl=o["wl"] * f)
        labels.append("decades_%d" % int(abs(case["u"])))
    else:
        f = 1.0
        o2 = dict(o, nm=1.0, wl=o["wl"] / o["nm"])
    try:
        a = _all_results(case, o)
        b = _all_results(case, o2)
    except Exception as e:
        if type(e).__name__ == "MultisphereFailure":
            return Outcome(None, False, labels + ["MultisphereFailure"], skipped=True)
        raise
    tol = TOL[t] * TOLX
    met = {}
    for key in a:
        va, vb = np.asarray(a[key]), np.asarray(b[key])
        if key == "cross_sections":
            fac = np.array([f * f, f * f, f * f, 1.0])
            if case["mode"] == "reduce":
                fac = np.ones(4)
            ext = abs(va[2])
            err = max(np.max(np.abs(vb[:3] / fac[:3] - va[:3])) / ext, abs(vb[3] - va[3]))
        else:
            scale = max(np.abs(va).max(), 1e-300)
            if key == "holo":
                scale = max(scale, 1.0)
            err = np.abs(vb - va).max() / scale
        met["%s_%s_%s" % (t, key, case["mode"])] = err
        if not np.isfinite(err) or err > tol:
            return Outcome(failure("unit_dependence" if case["mode"] == "scale" else "index_reduction",
                                   "%s of %s changes by %.3g (rel) when %s" % (
                                       key, lab, err, "all lengths are multiplied by 10^%.3f" % case["u"] if case["mode"] == "scale"
                                       else "(n, n_m, wl) -> (n/n_m, 1, wl/n_m)"),
                                   theory=t, quantity=key), True, labels)
    dev = np.abs(a["holo"] - 1).max()
    nontrivial = (case["mode"] == "reduce" and o["nm"] != 1.0 or abs(case["u"]) >= 1) and dev > 1e-3
    return Outcome(None, nontrivial, labels, metrics=met)


SUBCHECKS = [
    Sub("scale_and_index_reduction", strat, run, 3000, 50000,
        "all scene kinds/theories (Mie, layered, Mie superposition, Multisphere, Tmatrix spheroid/cylinder, MieLens, "
        "AberratedMieLens, Lens(Mie)); factor 10^u with u uniform in [-6,6] or an exact power of two; or the reduction "
        "(n,n_m,L)->(n/n_m,1,L/n_m); compares field, hologram, intensity, scattering matrix, cross sections (x factor^2); "
        "non-trivial = |u|>=1 (or n_m != 1) and the hologram deviates from 1 by >1e-3",
        tolerances=TOL),
]
