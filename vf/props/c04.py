"""C04 — results depend only on dimensionless ratios (unit-agnostic)."""
import math

import numpy as np
from hypothesis import strategies as st

from ..runner import Sub, Outcome, failure, TOLX
from .. import gen

PROPERTY = "C04"
ASSUMPTIONS = [
    "every length of a case (wavelength, radii, thicknesses, centres, pixel spacing, origin, point coordinates) is "
    "derived from the dimensionless case by one multiplication with the length unit, so changing the unit scales "
    "all of them by the same factor up to one rounding each",
    "no bitwise equality is demanded (only powers of two would allow it); tolerances are relative to max|field|",
]

KINDS = ["sphere", "layered", "cluster_mie", "cluster_ms", "spheroid", "cylinder", "mielens", "amielens", "lens"]
# Tolerances.  The closed-form theories evaluate smooth expressions of the dimensionless inputs: a rescaling
# perturbs every input by at most one rounding and the result by ~ x * eps (x <= ~1e3): 1e-10.
# The two iterative solvers do not: the T-matrix inversion amplifies a one-ulp input perturbation by its condition
# number, and Multisphere additionally makes discrete decisions (iteration count against `eps`, the Wiscombe-type
# cluster truncation order via nint()) that a one-ulp perturbation can flip.  For these the tolerance is
#   max(floor, 30 * measured response of this very case to a +-1, 3 ulp change of the wavelength)
# where the floor is the granularity of the stopping rules actually in force (see MS_OPTS).
# T-matrix floor: ampld.lp.f nudges every angle by EPS=1e-7 rad away from pi/2 and pi ("IF (PHIL.LT.PIN) PHIL=PHIL+EPS",
# else -EPS): a point mathematically on such a line lands on either side by rounding, a step of 2e-7 rad in the
# direction at which the amplitude matrix is evaluated
# Mie floor: the full-radial-dependence fields come from SBESJY, which normalises its recurrence by j_0(kr) down to
# |j_0| = sqrt(ACCUR) = 1e-7 before switching to j_1: just above that threshold the relative error is eps/1e-7 = 2e-9
TOL = {"mie": 1e-8, "tmatrix": 2e-6, "mielens": 1e-10, "amielens": 1e-10, "lens": 1e-10}
# Multisphere option sets: floor = 3*sqrt(eps) for the iteration stopping rule (eps bounds the squared residual),
# and for the converged set the truncation error of the cluster expansion at the Wiscombe order (~1e-7, one order
# more or less changes the field by that much)
MS_OPTS = {"default": (False, 3e-3), "tight": (True, 1e-4), "converged": ("converged", 1e-5)}


def strat(tier):
    side = 6 if tier == "quick" else 16
    u = st.one_of(st.floats(-6.0, 6.0), st.integers(-20, 20).map(lambda i: i * math.log10(2.0)),
                  st.sampled_from([-6.0, 6.0, -3.0, 3.0]))
    return st.tuples(gen.case_strategy(KINDS, max_side=side, any_norm=True), u,
                     st.sampled_from(["scale", "scale", "reduce"]),
                     st.sampled_from(["default", "tight", "converged", "converged"])).map(
        lambda t: dict(t[0], u=t[1], mode=t[2], ms_opts=t[3]))


def _all_results(case, o):
    from holopy.scattering import calc_holo, calc_field, calc_intensity, calc_scat_matrix, calc_cross_sections
    det, sc = case["det"], case["sc"]
    unit = o["wl"] / o["nm"]
    d = gen.build_detector(det, unit)
    s, th, info = gen.build_scene(sc, o, det)
    kw = gen.optics_kwargs(o)
    out = {}
    out["field"] = gen.flatten(calc_field(d, s, theory=th, **kw), gen.detector_points_xyz(det, unit))[1]
    out["holo"] = gen.flatten(calc_holo(d, s, theory=th, scaling=0.8, **kw), gen.detector_points_xyz(det, unit))[1]
    out["intensity"] = gen.flatten(calc_intensity(d, s, theory=th, **kw), gen.detector_points_xyz(det, unit))[1]
    t = sc["th"]["t"]
    if t in ("mie", "ms", "tmatrix") and not (t == "mie" and sc["kind"] == "cluster"):
        out["scat_matrix"] = calc_scat_matrix(d, s, o["nm"], o["wl"], theory=th).values
    if t == "mie" and sc["kind"] in ("sphere", "layered"):
        out["cross_sections"] = calc_cross_sections(s, theory=th, **kw).values
    return out


def run(case):
    o = case["o"]
    sc = case["sc"]
    if sc.get("rdt"):
        # a radius held in a narrow floating type is rounded to that type after scaling: not the same sphere any more
        sc = dict(sc, rdt=None)
        case = dict(case, sc=sc)
    t = sc["th"]["t"]
    lab = gen.scene_label(sc)
    labels = [lab, case["mode"]]
    if case["mode"] == "scale":
        f = 10.0 ** case["u"]
        o2 = dict(o, wl=o["wl"] * f)
        labels.append("decades_%d" % int(abs(case["u"])))
    else:
        f = 1.0
        o2 = dict(o, nm=1.0, wl=o["wl"] / o["nm"])
    noise = 0.0
    if t == "ms":
        # detector outside the sphere circumscribing the cluster with a margin (as in C09): inside it the
        # cluster-centred expansion does not converge and the value is series noise
        opt = case.get("ms_opts", "default")
        sc = dict(sc, th=dict(sc["th"], tight=MS_OPTS[opt][0]), pl=dict(sc["pl"], kgap=40.0 + sc["pl"]["kgap"]))
        case = dict(case, sc=sc)
        labels.append("ms_" + opt)
    try:
        a = _all_results(case, o)
        b = _all_results(case, o2)
        if t in ("ms", "tmatrix") or sc["kind"] == "layered":
            # layered spheres: the Yang recursion loses the real part of a_n for small x (C03 known finding), which
            # makes the cross sections themselves uncertain at that level
            for j in (1, -1, 3):
                c = _all_results(case, dict(o, wl=o["wl"] * (1 + j * 2.0 ** -52)))
                for key in a:
                    va, vc = np.asarray(a[key]), np.asarray(c[key])
                    if key == "cross_sections":
                        noise = max(noise, np.max(np.abs(vc[:3] - va[:3])) / abs(va[2]), abs(vc[3] - va[3]))
                    else:
                        noise = max(noise, np.abs(vc - va).max() / max(np.abs(va).max(), 1e-300))
    except Exception as e:
        if type(e).__name__ == "MultisphereFailure":
            return Outcome(None, False, labels + ["MultisphereFailure"], skipped=True)
        raise
    floor = MS_OPTS[case.get("ms_opts", "default")][1] if t == "ms" else TOL[t]
    if not (t in ("ms", "tmatrix") or sc["kind"] == "layered"):
        # closed-form theories: measure the case's own response to one ulp only when the floor is exceeded
        # (narrow resonances of large spheres amplify a rounding of the size parameter)
        def _worst():
            w = 0.0
            for key in a:
                va, vb = np.asarray(a[key]), np.asarray(b[key])
                if key == "cross_sections":
                    continue
                w = max(w, np.abs(vb - va).max() / max(np.abs(va).max(), 1.0 if key == "holo" else 1e-300))
            return w
        if _worst() > floor:
            for j in (1, -1, 3):
                c = _all_results(case, dict(o, wl=o["wl"] * (1 + j * 2.0 ** -52)))
                for key in a:
                    va, vc = np.asarray(a[key]), np.asarray(c[key])
                    if key == "cross_sections":
                        noise = max(noise, np.max(np.abs(vc[:3] - va[:3])) / abs(va[2]), abs(vc[3] - va[3]))
                    else:
                        noise = max(noise, np.abs(vc - va).max() / max(np.abs(va).max(), 1e-300))
            labels.append("measured_one_ulp_response")
    tol = max(floor, 30 * noise) * TOLX
    if noise > 1e-3:
        # the case itself is numerically unstable to one ulp: nothing can be concluded from it
        return Outcome(None, False, labels + ["unstable_to_one_ulp"], skipped=True)
    met = {}
    for key in a:
        va, vb = np.asarray(a[key]), np.asarray(b[key])
        if key == "cross_sections":
            fac = np.array([f * f, f * f, f * f, 1.0])
            if case["mode"] == "reduce":
                fac = np.ones(4)
            ext = abs(va[2])
            err = max(np.max(np.abs(vb[:3] / fac[:3] - va[:3])) / ext, abs(vb[3] - va[3]))
        else:
            scale = max(np.abs(va).max(), 1e-300)
            if key == "holo":
                scale = max(scale, 1.0)
            err = np.abs(vb - va).max() / scale
        met["%s_%s_%s" % (t, key, case["mode"])] = err
        tol_k = tol
        if key == "cross_sections" and sc["kind"] == "layered":
            # the layered recursion carries C_ext = O(x^6) in coefficients of O(x^3): relative rounding noise ~ eps / x^3 times
            # the amplification measured for C03 (known finding there); three one-ulp probes do not always sample its maximum
            tol_k = max(tol, 1e7 * np.finfo(float).eps / min(1.0, sc["x"]) ** 3 * TOLX)
        if not np.isfinite(err) or err > tol_k:
            return Outcome(failure("unit_dependence" if case["mode"] == "scale" else "index_reduction",
                                   "%s of %s changes by %.3g (rel) when %s" % (
                                       key, lab, err, "all lengths are multiplied by 10^%.3f" % case["u"] if case["mode"] == "scale"
                                       else "(n, n_m, wl) -> (n/n_m, 1, wl/n_m)"),
                                   theory=t, quantity=key), True, labels)
    dev = np.abs(a["holo"] - 1).max()
    nontrivial = (case["mode"] == "reduce" and o["nm"] != 1.0 or abs(case["u"]) >= 1) and dev > 1e-3
    return Outcome(None, nontrivial, labels, metrics=met)


# ------------------------------------------------------------------------------------------ theory left to the library
def strat_auto(tier):
    mem = st.fixed_dictionaries({"x": gen.size_param(0.3, 2.0), "m": gen.rel_index(False, 1.1, 1.8),
                                 "dir": st.tuples(st.floats(0.5, math.pi - 0.5), st.floats(0, 2 * math.pi)).map(list),
                                 # centre distance from the previous member in units of the sum of radii: touching ... far
                                 # beyond the 30-radius rule
                                 "dist": st.one_of(st.floats(1.02, 1.6), gen.logu(1.02, 40.0))})
    u = st.one_of(st.floats(-6.0, 6.0), st.integers(-20, 20).map(lambda i: i * math.log10(2.0)), st.sampled_from([-6.0, 6.0, -3.0, 3.0, 4.0]))
    return st.fixed_dictionaries({"o": gen.optics(True), "mem": st.lists(mem, min_size=2, max_size=3), "u": u,
                                  "pl": st.fixed_dictionaries({"fx": gen.rounded(0, 1, 3), "fy": gen.rounded(0, 1, 3), "kgap": st.floats(80.0, 200.0)}),
                                  "det": gen.point_detector(4)})


def run_auto(case):
    from holopy.scattering import calc_holo, calc_field
    from holopy.scattering.interface import determine_default_theory_for
    o = case["o"]
    f = 10.0 ** case["u"]
    sc = {"kind": "cluster", "mem": case["mem"], "pl": case["pl"], "th": {"t": "auto"}}
    res = []
    for oo in (o, dict(o, wl=o["wl"] * f)):
        unit = oo["wl"] / oo["nm"]
        d = gen.build_detector(case["det"], unit)
        s, th, info = gen.build_scene(sc, oo, case["det"])
        kw = gen.optics_kwargs(oo)
        chosen = type(determine_default_theory_for(s)).__name__
        try:
            h = gen.flatten(calc_holo(d, s, scaling=0.8, **kw), gen.detector_points_xyz(case["det"], unit))[1]
            e = gen.flatten(calc_field(d, s, **kw), gen.detector_points_xyz(case["det"], unit))[1]
        except Exception as ex:
            if type(ex).__name__ == "MultisphereFailure":
                return Outcome(None, False, ["MultisphereFailure"], skipped=True)
            raise
        cs = np.array(info["centers"], dtype=float); rs = np.array(info["radii"], dtype=float)
        sep = max(np.linalg.norm(a - b_) for a in cs for b_ in cs) / rs.max()
        res.append((chosen, np.asarray(h), np.asarray(e), sep))
    (c1, h1, e1, sep), (c2, h2, e2, _) = res
    labels = ["k%d" % len(case["mem"]), c1, "decades_%d" % int(abs(case["u"])), "within_30_radii" if sep <= 30 else "beyond_30_radii"]
    if abs(sep - 30.0) < 1e-9:
        return Outcome(None, False, labels + ["on_the_boundary"], skipped=True)
    if c1 != c2:
        return Outcome(failure("auto_theory_depends_on_unit", "largest separation %.4g radii: the theory chosen for the cluster is %s, and %s when all lengths "
                               "are multiplied by 10^%.3f" % (sep, c1, c2, case["u"])), True, labels)
    floor = 1e-8 if c1 == "Mie" else 3e-3
    err = max(np.abs(h2 - h1).max() / max(np.abs(h1).max(), 1.0), np.abs(e2 - e1).max() / max(np.abs(e1).max(), 1e-300))
    if not (err <= floor * TOLX):
        return Outcome(failure("unit_dependence", "hologram/field of an auto-theory cluster (%s) changes by %.3g when all lengths are multiplied by 10^%.3f"
                               % (c1, err, case["u"]), theory="auto", quantity="holo"), True, labels)
    return Outcome(None, abs(case["u"]) >= 1, labels, metrics={"auto_%s" % c1: err})


# ------------------------------------------------------------------------------------------ micrometre floats vs nanometre integers
def strat_intnm(tier):
    mm = st.integers(1, 999)
    return st.fixed_dictionaries({
        "wl": st.sampled_from([405, 532, 660, 785]), "nm": st.sampled_from([1.0, 1.33, 1.5]), "pol": gen.polarization(False),
        "kind": st.just("sphere"),
        "r": st.integers(100, 2000), "r2": st.integers(150, 1500), "m": gen.rounded(1.05, 1.8, 3),
        "c": st.tuples(st.integers(-2000, 6000), st.integers(-2000, 6000), st.integers(5000, 30000)).map(list),
        "shape": st.tuples(st.integers(1, 5), st.integers(1, 5)).map(list), "spacing": st.sampled_from([50, 100, 100, 137, 250]),
        "origin": st.tuples(st.integers(-3000, 3000), st.integers(-3000, 3000)).map(list), "z": st.sampled_from([0, 0, 500, -1500]),
        "det": st.sampled_from(["grid", "points"]), "rot": st.tuples(st.floats(0, 3.0), st.floats(0.2, 2.9), st.floats(0, 3.0)).map(list),
    })


def run_intnm(case):
    """every length an exact number of nanometres: written as micrometre floats, and as nanometre integers (int spacing gives
    integer-typed detector coordinates, integer tuples as centres, integer radii and wavelength)."""
    import holopy as hp
    from holopy.scattering import Sphere, Spheroid, Cylinder, Mie, Tmatrix, calc_holo, calc_field, calc_intensity, calc_scat_matrix, calc_cross_sections
    nx, ny = case["shape"]
    labels = [case["kind"], case["det"]]
    out = []
    for unit in ("um", "nm"):
        f = 1e-3 if unit == "um" else 1
        xs = [(case["origin"][0] + i * case["spacing"]) * f for i in range(nx)]
        ys = [(case["origin"][1] + j * case["spacing"]) * f for j in range(ny)]
        z = case["z"] * f
        if unit == "nm":
            xa, ya = np.array(xs, dtype=np.int64), np.array(ys, dtype=np.int64)
        else:
            xa, ya = np.array(xs, dtype=float), np.array(ys, dtype=float)
        if case["det"] == "grid":
            d = hp.detector_grid((nx, ny), case["spacing"] * f).assign_coords(x=xa, y=ya, z=[z])
        else:
            X, Y = np.meshgrid(xa, ya, indexing="ij")
            d = hp.detector_points(x=X.ravel(), y=Y.ravel(), z=z)
        c = tuple(v * f for v in case["c"])
        n = case["m"] * case["nm"]
        if case["kind"] == "sphere":
            s, th = Sphere(n=n, r=case["r"] * f, center=c), Mie()
        else:
            # tilted spheroids and cylinders respond to one ulp of the size by up to 1e-3 (see the noise model of the first
            # sub-check); the T-matrix path is exercised with the sphere, which is stable
            s, th = Sphere(n=n, r=min(case["r"], 800) * f, center=c), Tmatrix()
        pol = tuple(case["pol"]) if case["kind"] == "sphere" else (1, 0)
        kw = dict(medium_index=case["nm"], illum_wavelen=case["wl"] * f, illum_polarization=pol)
        res = {}
        try:
            res["holo"] = np.asarray(calc_holo(d, s, theory=th, scaling=0.8, **kw).values, dtype=float).ravel()
            res["field"] = np.asarray(calc_field(d, s, theory=th, **kw).values).ravel()
            res["intensity"] = np.asarray(calc_intensity(d, s, theory=th, **kw).values, dtype=float).ravel()
            res["scat_matrix"] = np.asarray(calc_scat_matrix(d, s, case["nm"], case["wl"] * f, theory=th).values).ravel()
            if case["kind"] == "sphere":
                res["cross_sections"] = np.asarray(calc_cross_sections(s, theory=th, **kw).values, dtype=float)
        except Exception as e:
            if type(e).__name__ in ("TmatrixFailure", "InvalidScatterer"):
                return Outcome(None, False, labels + [type(e).__name__], skipped=True)
            raise
        out.append(res)
    a, b_ = out
    floor = 1e-7 if case["kind"] == "sphere" else 2e-5
    for key in a:
        va, vb = a[key], b_[key]
        if key == "cross_sections":
            vb = vb / np.array([1e6, 1e6, 1e6, 1.0])
            err = max(np.max(np.abs(vb[:3] - va[:3])) / abs(va[2]), abs(vb[3] - va[3]))
        else:
            err = np.abs(vb - va).max() / max(np.abs(va).max(), 1.0 if key == "holo" else 1e-300)
        if not (err <= floor * TOLX):
            return Outcome(failure("unit_dependence", "%s of a %s differs by %.3g (rel) between micrometre floats and the same lengths as nanometre integers "
                                   "(integer-typed detector coordinates, centre, size and wavelength)" % (key, case["kind"], err), theory=type(th).__name__, quantity=key,
                                   integer_nanometres=True), True, labels)
    return Outcome(None, True, labels)


SUBCHECKS = [
    Sub("scale_and_index_reduction", strat, run, 3000, 50000,
        "all scene kinds/theories (Mie, layered, Mie superposition, Multisphere, Tmatrix spheroid/cylinder, MieLens, "
        "AberratedMieLens, Lens(Mie)); factor 10^u with u uniform in [-6,6] or an exact power of two; or the reduction "
        "(n,n_m,L)->(n/n_m,1,L/n_m); compares field, hologram, intensity, scattering matrix, cross sections (x factor^2); "
        "non-trivial = |u|>=1 (or n_m != 1) and the hologram deviates from 1 by >1e-3",
        tolerances=dict(TOL, ms_floor_by_options={k: v[1] for k, v in MS_OPTS.items()}, iterative_solvers="max(floor, 30 x response to +-1,3 ulp of the wavelength)")),
    Sub("auto_theory_units", strat_auto, run_auto, 1500, 20000,
        "2-3 sphere clusters with the theory left to the library, member separations from touching to far beyond the 30-radius "
        "rule, every length multiplied by 10^u (u in [-6, 6], exact powers of two, nm<->um<->m): the theory chosen by "
        "determine_default_theory_for must not depend on the unit, holograms and fields agree (Mie superposition 1e-8, "
        "Multisphere at its default stopping rule 3e-3); non-trivial = at least one decade",
        tolerances={"mie_rel": 1e-8, "multisphere_default_rel": 3e-3}, budget_quick=40),
    Sub("micrometre_floats_vs_nanometre_integers", strat_intnm, run_intnm, 1500, 20000,
        "sphere (Mie; the T-matrix code responds to one ulp of the size by up to 2e-3 and is left to the first sub-check's noise model) with every length an exact number of nanometres, once as micrometre "
        "floats and once as nanometre integers (int64 detector coordinates from an integer spacing, integer centre, radius and "
        "wavelength), grid or point detector, also off z=0: holograms, fields, intensities, scattering matrices equal "
        "(Mie 1e-7: positions such as 0.137 um are not exactly representable; T-matrix 2e-5), cross sections scale by 1e6",
        tolerances={"mie_rel": 1e-7, "tmatrix_rel": 2e-5}, budget_quick=40),
]
