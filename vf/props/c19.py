"""C19 — coordinate conversions and Euler rotations are mutually consistent."""
import math

import numpy as np
from hypothesis import strategies as st

from ..runner import Sub, Outcome, failure

PROPERTY = "C19"
ASSUMPTIONS = [
    "numpy elementary functions (sin, cos, arctan2, sqrt) are correctly rounded to a few ulp",
    "singular points (origin, polar axis) are excluded from the inverse-pair sub-checks only",
]

TWO_PI = 2 * math.pi

# ---------------------------------------------------------------------------------------------
# generators
# ---------------------------------------------------------------------------------------------
_unit = st.floats(-1.0, 1.0, allow_nan=False)
_special_coord = st.sampled_from([0.0, -0.0, 1.0, -1.0, 1e-300, -1e-300, 5e-324, -5e-324, 1e-17, -1e-17])


def _point():
    generic = st.tuples(_unit, _unit, _unit)
    axes = st.tuples(st.one_of(_unit, _special_coord), st.one_of(_unit, _special_coord),
                     st.one_of(_unit, _special_coord))
    return st.one_of(generic, generic, axes)


def strat_conv(tier):
    return st.fixed_dictionaries({
        "pts": st.lists(_point(), min_size=1, max_size=6),
        "exp": st.one_of(st.just(0), st.integers(-150, 150)),
        "scalar_z": st.booleans(),
        # whole turns added to the azimuth of cylindrical / spherical inputs
        "wrap": st.sampled_from([0, 0, -1, 1, 2, -2]),
        # integer-typed coordinate arrays (pixel indices) with a non-integer z, scalar or array
        "int_grid": st.one_of(st.none(), st.fixed_dictionaries({
            "dtype": st.sampled_from(["int64", "int64", "int32"]), "z": st.floats(-9.75, 9.75), "z_scalar": st.booleans()})),
    })


def _f(v):
    return float(v)


def _angdiff(a, b):
    d = (a - b) % TWO_PI
    return np.minimum(d, TWO_PI - d)


def run_conv(case):
    from holopy.core.math import find_transformation_function as ftf
    scale = 10.0 ** case["exp"]
    pts = np.array(case["pts"], dtype=float).T * scale     # shape (3, N)
    x, y, z = pts
    labels = []
    nrm = np.array([math.sqrt(math.fsum([a * a, b * b, c * c])) for a, b, c in pts.T])
    # harness norm via hypot (no overflow/underflow)
    nrm = np.array([math.hypot(a, b, c) for a, b, c in pts.T])
    rho_ref = np.array([math.hypot(a, b) for a, b in zip(x, y)])
    tiny = np.finfo(float).tiny
    c2s = ftf("cartesian", "spherical")
    c2c = ftf("cartesian", "cylindrical")
    s2c = ftf("spherical", "cartesian")
    y2c = ftf("cylindrical", "cartesian")
    y2s = ftf("cylindrical", "spherical")
    s2y = ftf("spherical", "cylindrical")

    sph = c2s(pts)
    cyl = c2c(pts)
    r, th, ph = sph
    # --- ranges
    if not (np.all(th >= 0) and np.all(th <= math.pi)):
        return Outcome(failure("polar_range", "theta outside [0, pi]: %r" % th.tolist()))
    for phis, nm in ((ph, "spherical"), (cyl[1], "cylindrical")):
        if not (np.all(phis >= 0) and np.all(phis <= TWO_PI)):
            return Outcome(failure("azimuth_range", "%s phi outside [0, 2pi]: %r" % (nm, phis.tolist())))
        at_top = phis == TWO_PI
        if np.any(at_top):
            labels.append("phi_equals_2pi_by_rounding")
            # allowed only through rounding: the true azimuth must be within rounding of 0-
            ok = (y[at_top] < 0) & (np.abs(y[at_top]) <= 1e-15 * np.abs(x[at_top])) & (x[at_top] > 0)
            if not np.all(ok):
                return Outcome(failure("azimuth_2pi_not_equivalent_to_0", "phi==2pi for %r" % pts[:, at_top].tolist()))
    # phi correct: (cos phi, sin phi) parallel to (x, y)
    big = rho_ref > 1e-290
    if np.any(big):
        cx = x[big] / rho_ref[big]
        cy = y[big] / rho_ref[big]
        for phis, nm in ((ph, "spherical"), (cyl[1], "cylindrical")):
            if np.max(np.abs(np.cos(phis[big]) - cx)) > 1e-14 or np.max(np.abs(np.sin(phis[big]) - cy)) > 1e-14:
                return Outcome(failure("azimuth_value", "%s azimuth does not point along (x,y)" % nm, system=nm))
    # --- norm preservation.  Squares over/underflow outside ~1e+-150, which the case respects.
    safe = (nrm > 1e-140) & (nrm < 1e150)
    if np.any(safe):
        if np.max(np.abs(r[safe] - nrm[safe]) / nrm[safe]) > 1e-14:
            return Outcome(failure("norm", "cart->sph r differs from |p|", pair="cartesian->spherical"))
        cn = np.array([math.hypot(a, b) for a, b in zip(cyl[0], cyl[2])])
        if np.max(np.abs(cn[safe] - nrm[safe]) / nrm[safe]) > 1e-14:
            return Outcome(failure("norm", "cart->cyl changes distance from origin", pair="cartesian->cylindrical"))
        if np.max(np.abs(cyl[2][safe] - z[safe])) > 0:
            return Outcome(failure("cyl_z", "cart->cyl changes z", pair="cartesian->cylindrical"))
        # polar angle value
        ct = z[safe] / nrm[safe]
        if np.max(np.abs(np.cos(th[safe]) - ct)) > 1e-14:
            return Outcome(failure("polar_value", "cos(theta) != z/|p|", pair="cartesian->spherical"))
    # --- round trips away from singularities
    nons = safe & (rho_ref > 1e-9 * nrm)
    nontrivial = bool(np.any(nons))
    if nontrivial:
        p = pts[:, nons]
        scl = nrm[nons]
        back = s2c(c2s(p))
        if np.max(np.abs(back - p) / scl) > 1e-12:
            return Outcome(failure("roundtrip", "cart->sph->cart", pair="cart-sph-cart"))
        back = y2c(c2c(p))
        if np.max(np.abs(back - p) / scl) > 1e-12:
            return Outcome(failure("roundtrip", "cart->cyl->cart", pair="cart-cyl-cart"))
        # sph -> cart -> sph and sph -> cyl -> sph, starting from HoloPy-independent spherical coords
        r0 = scl
        th0 = np.arctan2(rho_ref[nons], z[nons])
        ph0 = np.arctan2(y[nons], x[nons]) % TWO_PI
        s0 = np.array([r0, th0, ph0])
        for name, f in (("sph-cart-sph", lambda s: c2s(s2c(s))), ("sph-cyl-sph", lambda s: y2s(s2y(s)))):
            b = f(s0)
            if (np.max(np.abs(b[0] - r0) / r0) > 1e-12 or np.max(np.abs(b[1] - th0)) > 1e-12
                    or np.max(_angdiff(b[2], ph0)) > 1e-12 * np.max(1 / np.sin(np.clip(th0, 1e-9, None)))):
                return Outcome(failure("roundtrip", name, pair=name))
        c0 = np.array([rho_ref[nons], ph0, z[nons]])
        for name, f in (("cyl-cart-cyl", lambda c: c2c(y2c(c))), ("cyl-sph-cyl", lambda c: s2y(y2s(c)))):
            b = f(c0)
            if (np.max(np.abs(b[0] - c0[0]) / scl) > 1e-12 or np.max(_angdiff(b[1], c0[1])) > 1e-12 * np.max(scl / c0[0])
                    or np.max(np.abs(b[2] - c0[2]) / scl) > 1e-12):
                return Outcome(failure("roundtrip", name, pair=name))
        # --- composition cart->cyl->sph == cart->sph
        comp = y2s(c2c(p))
        direct = c2s(p)
        if (np.max(np.abs(comp[0] - direct[0]) / scl) > 1e-14 or np.max(np.abs(comp[1] - direct[1])) > 1e-14
                or np.max(_angdiff(comp[2], direct[2])) > 1e-14):
            return Outcome(failure("composition", "cart->cyl->sph != cart->sph"))
        # cart->sph->cyl == cart->cyl
        comp = s2y(c2s(p))
        direct = c2c(p)
        if (np.max(np.abs(comp[0] - direct[0]) / scl) > 1e-12 or np.max(_angdiff(comp[1], direct[1])) > 1e-14
                or np.max(np.abs(comp[2] - direct[2]) / scl) > 1e-12):
            return Outcome(failure("composition", "cart->sph->cyl != cart->cyl"))
    # --- azimuths given outside [0, 2 pi) (negative, or beyond one turn) are the same points: the conversions between
    # cylindrical and spherical coordinates must hand back an azimuth in [0, 2 pi] all the same
    kw_ = case.get("wrap", 0)
    if kw_ and not np.any(~np.isfinite(cyl)) and not np.any(~np.isfinite(sph)) and nrm.min() > 1e-140 and nrm.max() < 1e140:
        labels.append("azimuth_outside_one_turn")
        cyl_w = np.array([cyl[0], cyl[1] + TWO_PI * kw_, cyl[2]])
        sph_w = np.array([sph[0], sph[1], sph[2] + TWO_PI * kw_])
        for nm, got, ref, iphi in (("cylindrical->spherical", y2s(cyl_w), y2s(cyl), 2), ("spherical->cylindrical", s2y(sph_w), s2y(sph), 1)):
            got = np.asarray(got, dtype=float); ref = np.asarray(ref, dtype=float)
            if not (np.all(got[iphi] >= 0) and np.all(got[iphi] <= TWO_PI)):
                return Outcome(failure("azimuth_range", "%s returns phi = %r for an input azimuth of %r" % (nm, got[iphi].tolist(), (cyl_w[1] if iphi == 2 else sph_w[2]).tolist()),
                                       pair=nm, input_azimuth_outside_one_turn=True), True, labels)
            offaxis = rho_ref > 1e-9 * nrm
            if np.any(offaxis) and np.max(_angdiff(got[iphi][offaxis], ref[iphi][offaxis])) > 1e-13 * (1 + abs(kw_)):
                return Outcome(failure("azimuth_wrap", "%s: azimuth of the same point given one or more turns away differs" % nm, pair=nm), True, labels)
    # --- scalar z broadcast for cylindrical
    if case["scalar_z"]:
        z0 = float(z[0])
        a = c2c([x, y, z0])
        b = c2c(np.array([x, y, np.full(x.shape, z0)]))
        if a.shape != b.shape or not np.array_equal(a, b):
            return Outcome(failure("scalar_z", "cart->cyl with scalar z differs from broadcast z"))
        a = y2c([rho_ref, cyl[1], z0])
        b = y2c(np.array([rho_ref, cyl[1], np.full(x.shape, z0)]))
        if a.shape != b.shape or not np.array_equal(a, b):
            return Outcome(failure("scalar_z", "cyl->cart with scalar z differs from broadcast z"))
        labels.append("scalar_z")
    # --- integer-typed inputs are the same points as their float copies
    ig = case.get("int_grid")
    if ig is not None:
        dt = np.dtype(ig["dtype"])
        lo = 0 if dt.kind == "u" else -100
        xi = np.array([min(100, max(lo, int(round(100 * a[0])))) for a in case["pts"]], dtype=dt)
        yi = np.array([min(100, max(lo, int(round(100 * a[1])))) for a in case["pts"]], dtype=dt)
        zz = float(ig["z"]) if ig["z_scalar"] else np.array([ig["z"] + 0.5 * i for i in range(len(xi))])
        xf, yf = xi.astype(float), yi.astype(float)
        for nm, f in (("cartesian->cylindrical", c2c), ("cylindrical->cartesian", y2c)):
            a = np.asarray(f([xi, yi, zz]), dtype=float)
            b = np.asarray(f([xf, yf, zz]), dtype=float)
            if a.shape != b.shape or not np.allclose(a, b, rtol=1e-14, atol=0, equal_nan=True):
                return Outcome(failure("integer_input", "%s of %s-typed coordinates with z=%r differs from the float copy: %r vs %r"
                                       % (nm, dt.name, zz if ig["z_scalar"] else "array", a.tolist(), b.tolist()), pair=nm), True, labels)
        if not ig["z_scalar"]:
            zi = np.array([min(100, max(lo, int(round(100 * a[2])))) for a in case["pts"]], dtype=dt)
            for nm, f in (("cartesian->spherical", c2s), ("spherical->cartesian", s2c), ("cylindrical->spherical", y2s), ("spherical->cylindrical", s2y)):
                a = np.asarray(f(np.array([xi, yi, zi])), dtype=float)
                b = np.asarray(f(np.array([xf, yf, zi.astype(float)])), dtype=float)
                if a.shape != b.shape or not np.allclose(a, b, rtol=1e-14, atol=0, equal_nan=True):
                    return Outcome(failure("integer_input", "%s of %s-typed coordinates differs from the float copy" % (nm, dt.name), pair=nm), True, labels)
        labels.append("integer_typed_input")
    # identity pairs and unknown systems
    for sname in ("cartesian", "spherical", "cylindrical"):
        if not np.array_equal(ftf(sname, sname)(pts), pts):
            return Outcome(failure("identity", "same-system conversion changes values", system=sname))
    try:
        ftf("cartesian", "polar")
        return Outcome(failure("unknown_system", "no NotImplementedError for unknown system"))
    except NotImplementedError:
        pass
    if case["exp"] != 0:
        labels.append("scaled")
    if np.any(rho_ref == 0):
        labels.append("on_axis")
    return Outcome(None, nontrivial, labels)


# --- rotation matrix -------------------------------------------------------------------------
_special_angles = st.sampled_from([0.0, math.pi / 2, -math.pi / 2, math.pi, -math.pi, TWO_PI, math.pi / 4,
                                   1e-9, -1e-9, 3 * math.pi, 7.0, -7.0])
_angle = st.one_of(st.floats(-20.0, 20.0, allow_nan=False), st.floats(-7.0, 7.0, allow_nan=False),
                   st.floats(-7.0, 7.0, allow_nan=False), _special_angles)


def strat_rot(tier):
    return st.fixed_dictionaries({
        "angles": st.tuples(_angle, _angle, _angle),
        "pts": st.lists(st.tuples(st.floats(-10, 10), st.floats(-10, 10), st.floats(-10, 10)),
                        min_size=1, max_size=6),
        "np_scalar": st.booleans(),
    })


def Rz(a):
    c, s = math.cos(a), math.sin(a)
    return np.array([[c, -s, 0.0], [s, c, 0.0], [0.0, 0.0, 1.0]])


def Ry(a):
    c, s = math.cos(a), math.sin(a)
    return np.array([[c, 0.0, s], [0.0, 1.0, 0.0], [-s, 0.0, c]])


def ref_rotation(al, be, ga):
    return Rz(ga) @ Ry(be) @ Rz(al)


def run_rot(case):
    from holopy.core.math import rotation_matrix, rotate_points
    al, be, ga = case["angles"]
    if case["np_scalar"]:
        args = (np.float64(al), np.float64(be), np.float64(ga))
    else:
        args = (al, be, ga)
    before = tuple(float(a) for a in args)
    R = rotation_matrix(*args)
    if tuple(float(a) for a in args) != before:
        return Outcome(failure("mutated_input", "rotation_matrix changed its arguments"))
    if R.shape != (3, 3):
        return Outcome(failure("shape", "rotation matrix shape %r" % (R.shape,)))
    if np.max(np.abs(R @ R.T - np.eye(3))) > 1e-14:
        return Outcome(failure("orthogonality", "R R^T != I"))
    if abs(np.linalg.det(R) - 1) > 1e-14:
        return Outcome(failure("determinant", "det R = %r" % np.linalg.det(R)))
    ref = ref_rotation(al, be, ga)
    if np.max(np.abs(R - ref)) > 1e-14:
        return Outcome(failure("zyz_composition", "R != Rz(gamma) Ry(beta) Rz(alpha); max diff %.3g" % np.max(np.abs(R - ref))))
    deg = [math.degrees(a) for a in (al, be, ga)]
    Rd = rotation_matrix(deg[0], deg[1], deg[2], radians=False)
    if np.max(np.abs(Rd - ref)) > 1e-12:
        return Outcome(failure("degrees", "radians=False differs from degrees; max diff %.3g" % np.max(np.abs(Rd - ref))))
    pts = np.array(case["pts"], dtype=float)
    pts_copy = pts.copy()
    rp = rotate_points(pts, al, be, ga)
    if not np.array_equal(pts, pts_copy):
        return Outcome(failure("mutated_input", "rotate_points changed its input"))
    want = pts @ ref.T
    scl = max(1.0, np.max(np.abs(pts)))
    if rp.shape != pts.shape or np.max(np.abs(rp - want)) > 1e-13 * scl:
        return Outcome(failure("rotate_points", "rotate_points != R p"))
    one = rotate_points(pts[0], al, be, ga)
    if one.shape != (3,) or np.max(np.abs(one - want[0])) > 1e-13 * scl:
        return Outcome(failure("rotate_points_1d", "1-D input"))
    lst = rotate_points([list(p) for p in case["pts"]], al, be, ga)
    if np.max(np.abs(lst - want)) > 1e-13 * scl:
        return Outcome(failure("rotate_points_list", "list input"))
    # distances preserved
    d0 = np.linalg.norm(pts[:, None] - pts[None], axis=-1)
    d1 = np.linalg.norm(rp[:, None] - rp[None], axis=-1)
    if np.max(np.abs(d0 - d1)) > 1e-12 * scl:
        return Outcome(failure("distances", "rotate_points changes mutual distances"))
    nontriv = all(abs(math.sin(a)) > 1e-3 for a in (al, be, ga))
    return Outcome(None, nontriv, ["generic" if nontriv else "special_angle"])


# --- composites -------------------------------------------------------------------------------
_coord = st.floats(-20, 20, allow_nan=False).map(lambda v: round(v, 6))
_rad = st.floats(0.05, 3.0).map(lambda v: round(v, 6))


def _sphere():
    return st.fixed_dictionaries({"k": st.just("sphere"), "n": st.sampled_from([1.5, 1.59, 1.2 + 0.1j, 2.0]).map(
        lambda v: [v.real, v.imag] if isinstance(v, complex) else [v, 0.0]),
        "r": st.one_of(_rad, st.lists(_rad, min_size=2, max_size=3).map(sorted)),
        "c": st.tuples(_coord, _coord, _coord),
        # container of the centre: tuple, list, float array, integer array (when the coordinates are whole numbers)
        "cform": st.sampled_from(["tuple", "tuple", "list", "array", "array"])})


def _members(depth):
    if depth == 0:
        return _sphere()
    return st.one_of(_sphere(), _sphere(),
                     st.fixed_dictionaries({"k": st.just("spheres"),
                                            "m": st.lists(_sphere(), min_size=1, max_size=3)}))


def strat_comp(tier):
    return st.fixed_dictionaries({
        "top": st.sampled_from(["Spheres", "Scatterers", "RigidCluster"]),
        "m": st.lists(_members(1), min_size=1, max_size=6),
        "angles": st.tuples(_angle, _angle, _angle),
        "vec": st.tuples(_coord, _coord, _coord),
        "form": st.sampled_from(["tuple", "three_args", "array"]),
        # a history of further rigid motions applied one after the other to the results
        "chain": st.lists(st.one_of(st.tuples(st.just("rot"), _angle, _angle, _angle), st.tuples(st.just("tr"), _coord, _coord, _coord)).map(list),
                          min_size=2, max_size=4),
    })


def build_member(d, leaf_only=False):
    from holopy.scattering import Sphere, Spheres
    from holopy.scattering.scatterer import Union, Difference, Intersection
    k = d["k"]
    if k == "sphere":
        n = complex(*d["n"]) if d["n"][1] else d["n"][0]
        r = d["r"]
        if isinstance(r, list):
            n = [n] * len(r)
        cf = d.get("cform", "tuple")
        cc = tuple(d["c"]) if cf == "tuple" else (list(d["c"]) if cf == "list" else np.array(d["c"], dtype=float))
        return Sphere(n=n, r=r, center=cc)
    if k == "spheres":
        return Spheres([build_member(x) for x in d["m"]], warn=False)
    cls = {"union": Union, "difference": Difference, "intersection": Intersection}[k]
    a = dict(d["a"]); b = dict(d["b"])
    # CSG needs single-domain members of one index
    a["r"] = a["r"] if not isinstance(a["r"], list) else a["r"][-1]
    b["r"] = b["r"] if not isinstance(b["r"], list) else b["r"][-1]
    b["n"] = a["n"]
    return cls(build_member(a), build_member(b))


def leaf_centers(s):
    from holopy.scattering.scatterer import Scatterers
    from holopy.scattering.scatterer.csg import CsgScatterer
    if isinstance(s, Scatterers):
        out = []
        for m in s.scatterers:
            out += leaf_centers(m)
        return out
    if isinstance(s, CsgScatterer):
        return leaf_centers(s.s1) + leaf_centers(s.s2)
    return [np.array(s.center, dtype=float)]


def fingerprint(s):
    from holopy.scattering.scatterer import Scatterers
    from holopy.scattering.scatterer.csg import CsgScatterer
    if isinstance(s, Scatterers):
        return (type(s).__name__, tuple(fingerprint(m) for m in s.scatterers))
    if isinstance(s, CsgScatterer):
        return (type(s).__name__, fingerprint(s.s1), fingerprint(s.s2))
    return (type(s).__name__, repr(s.n), repr(np.array(s.r).tolist()), tuple(np.array(s.center, dtype=float).tolist()))


def run_comp(case):
    from holopy.scattering import Spheres, Scatterers
    from holopy.scattering.scatterer import RigidCluster
    al, be, ga = case["angles"]
    vec = np.array(case["vec"], dtype=float)
    top = case["top"]
    mem = case["m"]
    if top in ("Spheres", "RigidCluster"):
        mem = [m for m in mem if m["k"] == "sphere"] or [dict(k="sphere", n=[1.5, 0.0], r=0.5, c=(0.0, 0.0, 1.0))]
    members = [build_member(m) for m in mem]
    labels = [top, "members_%d" % len(members)]
    if top == "Scatterers":
        comp = Scatterers(members)
    else:
        comp = Spheres(members, warn=False)
    fp0 = fingerprint(comp)
    L0 = np.array(leaf_centers(comp))
    tops0 = np.array([np.array(m.center, dtype=float) for m in comp.scatterers])
    com = tops0.mean(0)
    R = ref_rotation(al, be, ga)
    scl = max(1.0, np.max(np.abs(L0)), np.max(np.abs(vec)))
    if top == "RigidCluster":
        rc = RigidCluster(comp, translation=tuple(vec), rotation=(al, be, ga))
        got = np.array([np.array(s.center, dtype=float) for s in rc.scatterers])
        want = com + (L0 - com) @ R.T + vec
        if got.shape != want.shape or np.max(np.abs(got - want)) > 1e-12 * scl:
            return Outcome(failure("rigid_cluster", "RigidCluster.scatterers != rotate about centroid then translate",
                                   members=len(members)))
        for a, b in zip(rc.scatterers, comp.scatterers):
            if repr(a.n) != repr(b.n) or repr(a.r) != repr(b.r):
                return Outcome(failure("rigid_cluster_members", "member properties changed"))
        if fingerprint(comp) != fp0:
            return Outcome(failure("mutated_input", "RigidCluster.scatterers modified the original Spheres"))
        return Outcome(None, len(members) >= 2 and abs(math.sin(be)) > 1e-3, labels)
    # --- arguments that are not a translation vector / an angle triple are refused (InvalidScatterer, as the code documents),
    # never interpreted as something else
    from holopy.scattering.errors import InvalidScatterer
    bad_calls = [("translated(5.0)", lambda o_: o_.translated(5.0)), ("translated((1.0, 2.0))", lambda o_: o_.translated((1.0, 2.0))),
                 ("translated(1.0, None, 3.0)", lambda o_: o_.translated(1.0, None, 3.0)), ("translated(1.0, 2.0)", lambda o_: o_.translated(1.0, 2.0)),
                 ("rotated(0.5)", lambda o_: o_.rotated(0.5)), ("rotated(0.5, 0.25)", lambda o_: o_.rotated(0.5, 0.25))]
    nm_, call_ = bad_calls[len(members) % len(bad_calls)]
    for target, tname in ((comp, top), (comp.scatterers[0], "member")):
        if nm_.startswith("rotated") and tname == "member":
            continue          # a sphere's rotated() takes three angles and ignores them
        try:
            r_ = call_(target)
        except InvalidScatterer:
            continue
        except (TypeError, ValueError, IndexError):
            continue          # refused, if not with the documented exception type
        return Outcome(failure("malformed_motion_accepted", "%s.%s is accepted and returns centres %r (original %r)"
                               % (tname, nm_, [list(map(float, c_)) for c_ in leaf_centers(r_)][:3], [list(map(float, c_)) for c_ in leaf_centers(target)][:3]),
                               call=nm_.split("(")[0]), True, labels)
    # --- translation
    if case["form"] == "three_args":
        tr = comp.translated(float(vec[0]), float(vec[1]), float(vec[2]))
    elif case["form"] == "array":
        tr = comp.translated(vec)
    else:
        tr = comp.translated(tuple(vec))
    if fingerprint(comp) != fp0:
        return Outcome(failure("mutated_input", "translated() modified the original", op="translated"))
    if type(tr) is not type(comp):
        return Outcome(failure("type", "translated() changed the class"))
    L1 = np.array(leaf_centers(tr))
    if L1.shape != L0.shape or np.max(np.abs(L1 - (L0 + vec))) > 1e-12 * scl:
        return Outcome(failure("translation", "members not shifted by the vector", top=top))
    tops1 = np.array([np.array(m.center, dtype=float) for m in tr.scatterers])
    if np.max(np.abs(tops1.mean(0) - (com + vec))) > 1e-12 * scl:
        return Outcome(failure("translation_centroid", "centroid not shifted by the vector"))
    # --- rotation
    if case["form"] == "three_args":
        ro = comp.rotated(al, be, ga)
    elif case["form"] == "array":
        ro = comp.rotated(np.array([al, be, ga]))
    else:
        ro = comp.rotated((al, be, ga))
    if fingerprint(comp) != fp0:
        return Outcome(failure("mutated_input", "rotated() modified the original", op="rotated"))
    if type(ro) is not type(comp):
        return Outcome(failure("type", "rotated() changed the class"))
    L2 = np.array(leaf_centers(ro))
    want = com + (L0 - com) @ R.T
    if L2.shape != L0.shape:
        return Outcome(failure("rotation", "member count changed"))
    d0 = np.linalg.norm(L0[:, None] - L0[None], axis=-1)
    d2 = np.linalg.norm(L2[:, None] - L2[None], axis=-1)
    if np.max(np.abs(d0 - d2)) > 1e-11 * scl:
        return Outcome(failure("rotation_distances", "pairwise distances changed by %.3g" % np.max(np.abs(d0 - d2)), top=top))
    tops2 = np.array([np.array(m.center, dtype=float) for m in ro.scatterers])
    if np.max(np.abs(tops2.mean(0) - com)) > 1e-11 * scl:
        return Outcome(failure("rotation_centroid", "centroid moved under rotation", top=top))
    if np.max(np.abs(L2 - want)) > 1e-11 * scl:
        return Outcome(failure("rotation_rigid", "members not at R(c - centroid) + centroid", top=top))
    # member properties unchanged (radius/index)
    fpr = fingerprint(ro)

    def strip(fp):
        if fp[0] in ("Sphere",):
            return fp[:3]
        return (fp[0],) + tuple(strip(x) for x in (fp[1] if isinstance(fp[1], tuple) and fp[1] and isinstance(fp[1][0], tuple) and fp[0] in ("Spheres", "Scatterers") else fp[1:]))
    if strip(fpr) != strip(fp0):
        return Outcome(failure("rotation_members", "rotation changed member properties"))
    nested = any(m["k"] != "sphere" for m in mem)
    if nested:
        labels.append("nested")
    # --- histories: rigid motions applied one after the other, starting from the original (which has already
    # been rotated and translated once above) and from its translated copy
    if not nested and case.get("chain"):
        for start_name, start_obj, Lref in (("original", comp, L0.copy()), ("translated copy", tr, L0 + vec)):
            cur = start_obj
            for step, op in enumerate(case["chain"]):
                if op[0] == "rot":
                    cur = cur.rotated(op[1], op[2], op[3])
                    c_ = Lref.mean(0)
                    Lref = c_ + (Lref - c_) @ ref_rotation(op[1], op[2], op[3]).T
                else:
                    v_ = np.array(op[1:], dtype=float)
                    cur = cur.translated(tuple(v_))
                    Lref = Lref + v_
                Lc = np.array(leaf_centers(cur))
                sc_ = max(scl, np.max(np.abs(Lref)))
                if Lc.shape != Lref.shape or np.max(np.abs(Lc - Lref)) > 1e-10 * sc_:
                    return Outcome(failure("history_rigid_motion", "after %d further step(s) (%s) from the %s the members are off by %.3g from the composed rigid motion"
                                           % (step + 1, "/".join(o[0] for o in case["chain"][:step + 1]), start_name, np.max(np.abs(Lc - Lref))), top=top), True, labels)
            if fingerprint(comp) != fp0:
                return Outcome(failure("mutated_input", "a chain of rotated()/translated() modified the original", op="chain"), True, labels)
        labels.append("history")
    return Outcome(None, len(L0) >= 2 and abs(math.sin(be)) > 1e-3, labels)


SUBCHECKS = [
    Sub("conversions", strat_conv, run_conv, 12000, 300000,
        "points drawn per coordinate from [-1,1] or special values {±0, ±1, ±1e-300, ±5e-324, ±1e-17}, scaled by "
        "10^e, e in [-150,150]; non-trivial = at least one point away from the polar axis and origin "
        "(all inverse-pair/composition relations evaluated)",
        tolerances={"roundtrip_rel": 1e-12, "norm_rel": 1e-14, "angle_abs": 1e-12}),
    Sub("rotation_matrix", strat_rot, run_rot, 10000, 200000,
        "Euler angle triples from [-20,20] and special values; non-trivial = no angle within 1e-3 of a multiple of pi",
        tolerances={"matrix_abs": 1e-14, "degrees_abs": 1e-12}),
    Sub("composites", strat_comp, run_comp, 6000, 100000,
        "Spheres / Scatterers (with nested Spheres members) / RigidCluster of 1-6 members, random Euler "
        "angles and translation vectors in three calling conventions; non-trivial = >= 2 leaf members and sin(beta) != 0",
        tolerances={"position_rel": 1e-11}),
]
