"""C12 — posterior = prior x Gaussian likelihood, exactly as documented."""
import math

import numpy as np
from hypothesis import strategies as st

from ..runner import Sub, Outcome, failure, TOLX
from .. import gen

PROPERTY = "C12"
ASSUMPTIONS = [
    "log-prior and Gaussian log-likelihood are recomputed by the harness with its own formulas from the generated "
    "prior parameters, data, noise level and the hologram returned by the public calc_holo for the substituted values",
    "models use Mie with single spheres or two-sphere collections so that a forward call costs ~10 ms",
]

_prior = st.fixed_dictionaries({"kind": st.sampled_from(["uniform", "gaussian", "bounded", "fixed"]), "w": gen.rounded(0.02, 0.3, 3),
                                "off": st.floats(-0.4, 0.4)})


def strat(tier):
    return st.fixed_dictionaries({
        "model": st.sampled_from(["alpha", "alpha", "exact", "exact_counting"]),
        "two": st.booleans(),
        "pri": st.fixed_dictionaries({"n": _prior, "r": _prior, "x": _prior, "z": _prior, "alpha": _prior, "r2": _prior, "noise": _prior}),
        "truth": st.fixed_dictionaries({"n": gen.rounded(1.45, 1.7, 3), "r": gen.rounded(0.3, 0.8, 3), "z": gen.rounded(4.0, 12.0, 2),
                                        "alpha": gen.rounded(0.6, 1.0, 3), "sep": gen.rounded(0.5, 4.0, 2)}),
        "shape": st.tuples(st.integers(2, 8), st.integers(2, 8)).map(list),
        "spacing": gen.rounded(0.08, 0.3, 3),
        "optics_from": st.sampled_from(["model", "data", "split"]),
        "noise_from": st.sampled_from(["model_scalar", "model_prior", "data_scalar", "model_over_data", "none", "per_channel_model", "per_channel_data"]),
        "noise": gen.rounded(0.02, 0.5, 3), "noise2": gen.rounded(0.02, 0.5, 3),
        "channels": st.sampled_from([1, 1, 2]),
        "resid_seed": st.integers(0, 2 ** 31 - 1), "resid_amp": st.sampled_from([0.0, 0.01, 0.1]),
        "mode": st.sampled_from(["inside", "inside", "on_bound", "outside", "negative_radius", "overlap", "nan_value"]),
        "shift": st.lists(st.floats(-1, 1), min_size=8, max_size=8),
        "constraint": st.one_of(st.none(), st.floats(0.0, 1.0), st.sampled_from([0.0, 0.1, 1.0])),
        "pixels": st.one_of(st.none(), st.floats(0.05, 1.0)), "pix_seed": st.integers(0, 2 ** 31 - 1),
        "subset_data": st.booleans(), "minus": st.booleans(),
    })


def make_prior(spec, center, positive=True):
    from holopy.core import prior
    k, w = spec["kind"], spec["w"]
    c = center
    width = w * max(abs(c), 0.2)
    if k == "fixed":
        return c, None
    mu = c + spec["off"] * width
    if k == "uniform":
        lo, hi = mu - width, mu + width
        return prior.Uniform(lo, hi), ("uniform", lo, hi)
    if k == "gaussian":
        return prior.Gaussian(mu, width / 2), ("gaussian", mu, width / 2)
    lo, hi = mu - width, mu + 1.5 * width
    return prior.BoundedGaussian(mu, width / 2, lo, hi), ("bounded", mu, width / 2, lo, hi)


def ref_lnprob(desc, x):
    if desc[0] == "uniform":
        _, lo, hi = desc
        return -math.log(hi - lo) if lo <= x <= hi else -math.inf
    if desc[0] == "gaussian":
        _, mu, sd = desc
        return -math.log(sd * math.sqrt(2 * math.pi)) - (x - mu) ** 2 / (2 * sd * sd)
    _, mu, sd, lo, hi = desc
    if x < lo or x > hi:
        return -math.inf
    return -math.log(sd * math.sqrt(2 * math.pi)) - (x - mu) ** 2 / (2 * sd * sd)


def run(case):
    import xarray as xr
    import holopy as hp
    from holopy.core import prior
    from holopy.core.metadata import detector_grid, update_metadata, make_subset_data
    from holopy.scattering import Sphere, Spheres, Mie, calc_holo
    from holopy.scattering.errors import MissingParameter
    from holopy.inference import AlphaModel, ExactModel
    from holopy.inference.model import LimitOverlaps
    from holopy.core.utils import LnpostWrapper
    t = case["truth"]
    nm, wl, pol = 1.33, 0.66, (1.0, 0.0)
    pri = case["pri"]
    descs = {}     # name -> (prior description, slot key)

    def P(key, center):
        p, d = make_prior(pri[key], center)
        if d is not None:
            descs[key] = d
        return p
    two = case["two"]
    nx, ny = case["shape"]
    sp = case["spacing"]
    cx, cy = 0.5 * nx * sp, 0.5 * ny * sp
    n_p, r_p, x_p, z_p = P("n", t["n"]), P("r", t["r"]), P("x", cx), P("z", t["z"])
    s1 = Sphere(n=n_p, r=r_p, center=[x_p, cy, z_p])
    if two:
        r2_p = P("r2", t["r"] * 0.8)
        scat = Spheres([s1, Sphere(n=t["n"], r=r2_p, center=[cx + t["sep"], cy, t["z"]])], warn=False)
    else:
        scat = s1
    labels = [case["model"], "two" if two else "one", case["mode"], case["noise_from"], "optics_" + case["optics_from"]]
    nch = case["channels"] if case["noise_from"].startswith("per_channel") else 1
    chans = ["red", "green"][:nch]
    # noise / optics placement
    nf = case["noise_from"]
    noise_model = None
    if nf in ("model_scalar", "model_over_data"):
        noise_model = case["noise"]
    elif nf == "model_prior":
        noise_model = P("noise", case["noise"])
        if not isinstance(noise_model, prior.Prior):
            noise_model = case["noise"]
    elif nf == "per_channel_model" and nch == 2:
        noise_model = {"red": case["noise"], "green": case["noise2"]}
        form = case.get("pix_seed", 0) % 3
        if form:
            # the same per-channel values as an array labelled along 'illumination', labels in either order
            order = ["red", "green"] if form == 1 else ["green", "red"]
            noise_model = xr.DataArray([noise_model[c] for c in order], dims="illumination", coords={"illumination": order})
            labels.append("noise_labelled_array_" + "_".join(order))
    elif nf == "per_channel_model":
        noise_model = case["noise"]
    okw_model = {}
    okw_data = {}
    if case["optics_from"] == "model":
        okw_model = dict(medium_index=nm, illum_wavelen=wl, illum_polarization=pol)
    elif case["optics_from"] == "data":
        okw_data = dict(medium_index=nm, illum_wavelen=wl, illum_polarization=pol)
    else:
        okw_model = dict(medium_index=nm); okw_data = dict(illum_wavelen=wl, illum_polarization=pol)
    if nch == 2:
        # per-channel wavelength so that the two channels differ
        wl2 = {"red": wl, "green": 0.52}
        if "illum_wavelen" in okw_model:
            okw_model["illum_wavelen"] = wl2
        else:
            okw_data["illum_wavelen"] = wl2
    counter = {"n": 0}

    def counting(detector, scatterer, **kw):
        counter["n"] += 1
        return calc_holo(detector, scatterer, **kw)
    cons = [LimitOverlaps(case["constraint"])] if (case["constraint"] is not None and two) else []
    alpha_p = None
    if case["model"] == "alpha":
        alpha_p = P("alpha", t["alpha"])
        model = AlphaModel(scat, alpha=alpha_p, noise_sd=noise_model, theory=Mie(), constraints=cons, **okw_model)
    elif case["model"] == "exact":
        model = ExactModel(scat, noise_sd=noise_model, theory=Mie(), constraints=cons, **okw_model)
    else:
        model = ExactModel(scat, calc_func=counting, noise_sd=noise_model, theory=Mie(), constraints=cons, **okw_model)
    names = list(model._parameter_names)
    # map model parameter names to our keys
    key_of = {}
    for nmme in names:
        base = nmme.split(":")[-1]
        key = {"n": "n", "r": "r", "center.0": "x", "center.2": "z", "alpha": "alpha", "noise_sd": "noise"}.get(base)
        if nmme.startswith("1:") and base == "r":
            key = "r2"
        if key is None or key not in descs:
            return Outcome(failure("harness_error", "cannot map parameter %r (names %r, priors %r)" % (nmme, names, sorted(descs))), False, labels)
        key_of[nmme] = key
    if not names:
        return Outcome(None, False, labels + ["no_free_parameters"], skipped=True)
    # data
    det = detector_grid((nx, ny), sp, extra_dims={"illumination": chans} if nch == 2 else None)
    noise_data = None
    if nf in ("data_scalar", "model_over_data"):
        noise_data = case["noise2"]
    elif nf == "per_channel_data":
        noise_data = {"red": case["noise"], "green": case["noise2"]} if nch == 2 else case["noise2"]
    det = update_metadata(det, noise_sd=noise_data, **okw_data)
    truth_vals = {"n": t["n"], "r": t["r"], "x": cx, "z": t["z"], "alpha": t["alpha"], "r2": t["r"] * 0.8, "noise": case["noise"]}
    v = {nmme: truth_vals[key_of[nmme]] for nmme in names}
    # keep the starting point inside every support
    for nmme in names:
        d = descs[key_of[nmme]]
        lo, hi = (d[1], d[2]) if d[0] == "uniform" else ((d[3], d[4]) if d[0] == "bounded" else (-math.inf, math.inf))
        if not (lo <= v[nmme] <= hi):
            v[nmme] = 0.5 * (lo + hi)
    truth_vec = dict(v)
    try:
        clean = model.forward(truth_vec, det)
    except MissingParameter:
        return Outcome(None, False, labels + ["missing_parameter_at_forward"], skipped=True)
    rng = np.random.RandomState(case["resid_seed"])
    data = clean + case["resid_amp"] * rng.standard_normal(clean.shape)
    data.attrs = det.attrs if not hasattr(clean, "attrs") else clean.attrs
    data = update_metadata(data, noise_sd=noise_data)
    counter["n"] = 0
    # parameter vector for the evaluation
    mode = case["mode"]
    for i, nmme in enumerate(names):
        d = descs[key_of[nmme]]
        width = (d[2] - d[1]) / 2 if d[0] == "uniform" else d[2]
        v[nmme] = v[nmme] + 0.2 * case["shift"][i % 8] * width * (0.1 if key_of[nmme] in ("x", "z") else 1.0)
    for nmme in names:      # re-clip into support
        d = descs[key_of[nmme]]
        lo, hi = (d[1], d[2]) if d[0] == "uniform" else ((d[3], d[4]) if d[0] == "bounded" else (-math.inf, math.inf))
        v[nmme] = min(max(v[nmme], lo), hi)
    bounded_names = [x for x in names if descs[key_of[x]][0] in ("uniform", "bounded")]
    if mode == "on_bound" and bounded_names:
        x = bounded_names[0]; d = descs[key_of[x]]
        v[x] = d[1] if d[0] == "uniform" else d[3]
    elif mode == "outside" and bounded_names:
        x = bounded_names[-1]; d = descs[key_of[x]]
        hi = d[2] if d[0] == "uniform" else d[4]
        v[x] = hi + 0.01 * abs(hi) + 1e-6
    elif mode == "nan_value" and bounded_names:
        # not-a-number is in no prior's support
        v[bounded_names[len(bounded_names) // 2]] = float("nan")
    elif mode == "negative_radius":
        rn = [x for x in names if key_of[x] in ("r", "r2")]
        gauss = [x for x in rn if descs[key_of[x]][0] == "gaussian"]
        if gauss:
            v[gauss[0]] = -0.1
    elif mode == "overlap" and two and "x" in descs and descs["x"][0] == "gaussian":
        xs = [x for x in names if key_of[x] == "x"]
        if xs:
            v[xs[0]] = cx + t["sep"] - 0.05     # first sphere moved onto the second
    for x in names:
        # a noise level is a positive number: keep the evaluated value inside the likelihood's domain
        if key_of[x] == "noise" and v[x] <= 0:
            v[x] = 1e-3
    vec = [v[x] for x in names]
    # ---- reference log-prior
    ref_prior = sum(ref_lnprob(descs[key_of[x]], v[x]) for x in names)
    if any(isinstance(v[x], float) and math.isnan(v[x]) for x in names):
        ref_prior = -math.inf
    radii = {"r": v.get(next((x for x in names if key_of[x] == "r"), None), t["r"])}
    r1 = next((v[x] for x in names if key_of[x] == "r"), None)
    if r1 is None:
        r1 = r_p if not isinstance(r_p, prior.Prior) else t["r"]
    r2 = next((v[x] for x in names if key_of[x] == "r2"), None)
    if two and r2 is None:
        r2 = r2_p if not isinstance(r2_p, prior.Prior) else t["r"] * 0.8
    invalid = r1 < 0 or bool(two and r2 < 0)
    x1 = next((v[x] for x in names if key_of[x] == "x"), x_p if not isinstance(x_p, prior.Prior) else cx)
    z1 = next((v[x] for x in names if key_of[x] == "z"), z_p if not isinstance(z_p, prior.Prior) else t["z"])
    violates = False
    if cons and not invalid:
        dist = math.sqrt((x1 - (cx + t["sep"])) ** 2 + (z1 - t["z"]) ** 2)
        raw = r1 + r2 - dist
        largest = max(0.0, raw)
        allowed = 2 * min(r1, r2) * case["constraint"]
        # abstain only where rounding of the distance could decide; clearly separated spheres have overlap
        # exactly 0, which is within any allowance >= 0 (including fraction = 0: "no overlap allowed")
        if abs(raw - allowed) < 1e-9:
            return Outcome(None, False, labels + ["constraint_boundary_abstain"], skipped=True)
        violates = largest > allowed
        if raw < 0 and allowed == 0:
            labels.append("zero_allowance_separated")
    if invalid or violates:
        ref_prior = -math.inf
    cause = "invalid_scatterer" if invalid else ("constraint" if violates else ("outside_support" if ref_prior == -math.inf else "finite"))
    labels.append(cause)
    got_prior = model.lnprior(vec)
    if ref_prior == -math.inf:
        if got_prior != -np.inf:
            return Outcome(failure("lnprior_not_minus_inf", "lnprior = %r although %s (values %r)" % (got_prior, cause, v), cause=cause), True, labels)
        counter["n"] = 0
        lp = model.lnposterior(vec, data)
        if lp != -np.inf:
            return Outcome(failure("lnposterior_not_minus_inf", "lnposterior = %r although lnprior is -inf (%s)" % (lp, cause), cause=cause), True, labels)
        if case["model"] == "exact_counting" and counter["n"] != 0:
            return Outcome(failure("hologram_computed_for_forbidden_parameters", "%d forward calculations although lnprior = -inf (%s)" % (counter["n"], cause), cause=cause), True, labels)
        return Outcome(None, True, labels)
    if not (abs(got_prior - ref_prior) <= 1e-10 * max(1.0, abs(ref_prior)) * TOLX):
        return Outcome(failure("lnprior_value", "lnprior %r, sum of reference log-densities %r" % (got_prior, ref_prior)), True, labels)
    # ---- forward == public calc_holo for the substituted scatterer/theory/optics
    scat_v = model.scatterer_from_parameters(vec)
    alpha_v = next((v[x] for x in names if key_of[x] == "alpha"), alpha_p if case["model"] == "alpha" else None)
    work = data
    if case["subset_data"] and nch == 1:
        p = max(1, int(round((case["pixels"] or 0.5) * nx * ny)))
        work = make_subset_data(data, pixels=p, seed=case["pix_seed"])
    okw_full = dict(medium_index=nm, illum_wavelen=(wl if nch == 1 else {"red": wl, "green": 0.52}), illum_polarization=pol)
    fwd = model.forward(vec, work)
    if case["model"] == "alpha":
        pub = calc_holo(work, scat_v, theory=Mie(), scaling=alpha_v, **okw_full)
    else:
        pub = calc_holo(work, scat_v, theory=Mie(), **okw_full)
    if not np.array_equal(np.asarray(fwd.values), np.asarray(pub.values)):
        return Outcome(failure("forward_vs_calc_holo", "model.forward differs from the public calc_holo by %.3g" % np.abs(fwd.values - pub.values).max(),
                               model=case["model"]), True, labels)
    # ---- reference log-likelihood
    noise_v = next((v[x] for x in names if key_of[x] == "noise"), None)
    if noise_v is None:
        src = noise_model if noise_model is not None else noise_data
    else:
        src = noise_v
    expect_missing = src is None and not all(descs[key_of[x]][0] == "uniform" for x in names)
    if src is None:
        src = 1.0
    try:
        got_like = model.lnlike(vec, work)
    except MissingParameter:
        if expect_missing:
            return Outcome(None, True, labels + ["missing_noise_documented"])
        return Outcome(failure("unexpected_missing_parameter", "MissingParameter although a noise level is available (%s)" % nf), True, labels)
    if expect_missing:
        return Outcome(failure("missing_noise_not_reported", "no MissingParameter although neither model nor data carry noise and priors are not all uniform"), True, labels)
    resid = (pub - work)
    if isinstance(src, xr.DataArray):
        src = {str(l): float(src.sel(illumination=l)) for l in src.illumination.values}
    if isinstance(src, dict):
        sig = xr.DataArray([src[c] for c in chans], dims="illumination", coords={"illumination": chans})
        z = (resid / sig).values
        logsig = float(sum(np.log(src[c]) for c in chans)) * (resid.size / nch)
    else:
        z = resid.values / src
        logsig = resid.size * math.log(src)
    ref_like = -0.5 * resid.size * math.log(2 * math.pi) - logsig - 0.5 * float((z ** 2).sum())
    if not (abs(got_like - ref_like) <= 1e-10 * max(1.0, abs(ref_like)) * TOLX):
        return Outcome(failure("lnlike_value", "lnlike %r, Gaussian log-density of the residuals %r (noise %r from %s)" % (got_like, ref_like, src, nf), noise=nf), True, labels)
    got_post = model.lnposterior(vec, work)
    if got_post != got_prior + got_like:
        return Outcome(failure("lnposterior_sum", "lnposterior %r != lnprior %r + lnlike %r" % (got_post, got_prior, got_like)), True, labels)
    # pixels= argument: equals the value on the subset drawn with the same global RNG state
    if case["pixels"] is not None and nch == 1 and not case["subset_data"]:
        p = max(1, int(round(case["pixels"] * nx * ny)))
        np.random.seed(case["pix_seed"] % (2 ** 32))
        a = model.lnposterior(vec, data, pixels=p)
        np.random.seed(case["pix_seed"] % (2 ** 32))
        sub = make_subset_data(data, pixels=p)
        b = model.lnposterior(vec, sub)
        if a != b:
            return Outcome(failure("lnposterior_pixels", "lnposterior(pixels=%d) %r != value on the same random subset %r" % (p, a, b)), True, labels)
        labels.append("pixels_arg")
    wrap = LnpostWrapper(model, work, minus=case["minus"])
    w = wrap.evaluate(vec)
    want = -got_post if case["minus"] else got_post
    if w != want:
        return Outcome(failure("lnpost_wrapper", "LnpostWrapper(minus=%s) gives %r, expected %r" % (case["minus"], w, want)), True, labels)
    nontrivial = len(names) >= 2 and case["resid_amp"] > 0
    return Outcome(None, nontrivial, labels)


# ------------------------------------------------------------------------------------------ histories
def strat_hist(tier):
    vec = st.fixed_dictionaries({"n": st.floats(0, 1), "r": st.floats(0, 1), "alpha": st.floats(0, 1), "s1": st.floats(0, 1), "s2": st.floats(0, 1)})
    return st.fixed_dictionaries({
        "noise": st.sampled_from(["prior_scalar", "prior_per_channel", "prior_per_channel", "mixed_per_channel", "fixed_per_channel"]),
        "model": st.sampled_from(["alpha", "exact", "many_parameters"]),
        "shape": st.tuples(st.integers(2, 6), st.integers(2, 6)).map(list), "spacing": gen.rounded(0.08, 0.3, 3),
        "truth": st.fixed_dictionaries({"n": gen.rounded(1.45, 1.7, 3), "r": gen.rounded(0.3, 0.8, 3), "z": gen.rounded(4.0, 12.0, 2)}),
        "vecs": st.lists(vec, min_size=2, max_size=5), "resid_seed": st.integers(0, 2 ** 31 - 1),
        "subset": st.one_of(st.none(), st.floats(0.2, 0.9)),
    })


def _run_many(case):
    """a model with more than ten free parameters (three spheres with every n, r, x, y, z free, alpha and the noise
    level): forward hologram and likelihood against the public calculation for a scatterer assembled here from the
    parameter names, not by the model."""
    from holopy.core import prior
    from holopy.core.metadata import detector_grid
    from holopy.scattering import Sphere, Spheres, Mie, calc_holo
    from holopy.inference import AlphaModel
    t = case["truth"]
    nx, ny = case["shape"]; sp = case["spacing"]
    okw = dict(medium_index=1.33, illum_wavelen=0.66, illum_polarization=(1.0, 0.0))
    base = [(0.0, 0.0), (3.0, 0.5), (-1.0, 3.5)]
    spheres = [Sphere(n=prior.Uniform(1.4, 1.8), r=prior.Uniform(0.2, 0.6),
                      center=[prior.Uniform(bx - 0.3, bx + 0.3), prior.Uniform(by - 0.3, by + 0.3), prior.Uniform(t["z"] - 0.5, t["z"] + 0.5)])
               for bx, by in base]
    model = AlphaModel(Spheres(spheres, warn=False), alpha=prior.Uniform(0.5, 1.0), noise_sd=prior.Uniform(0.01, 0.6), theory=Mie(), **okw)
    names = list(model._parameter_names)
    labels = ["many_parameters", "parameters_%d" % len(names)]
    if len(names) != 17:
        return Outcome(failure("harness_error", "expected 17 parameters, got %r" % names), False, labels)
    det = detector_grid((nx, ny), sp)
    rng = np.random.RandomState(case["resid_seed"] % (2 ** 31))
    data = None
    for i, u in enumerate(case["vecs"]):
        frac = rng.uniform(0.05, 0.95, size=len(names))
        vec = [p.lower_bound + f * (p.upper_bound - p.lower_bound) for p, f in zip(model._parameters, frac)]
        val = dict(zip(names, vec))
        built = Spheres([Sphere(n=val["%d:n" % j], r=val["%d:r" % j], center=(val["%d:center.0" % j], val["%d:center.1" % j], val["%d:center.2" % j]))
                         for j in range(3)], warn=False)
        pub = calc_holo(det, built, theory=Mie(), scaling=val["alpha"], **okw)
        if data is None:
            data = pub + 0.05 * rng.standard_normal(pub.shape)
            data.attrs = pub.attrs
        fwd = model.forward(vec, det)
        if not np.array_equal(np.asarray(fwd.values), np.asarray(pub.values)):
            return Outcome(failure("forward_vs_calc_holo", "17-parameter model: forward differs from the public calc_holo for the scatterer named by the parameters by %.3g"
                                   % np.abs(fwd.values - pub.values).max(), model="many_parameters"), True, labels)
        got = model.lnlike(vec, data)
        z = (pub - data).values / val["noise_sd"]
        ref = -0.5 * z.size * math.log(2 * math.pi) - z.size * math.log(val["noise_sd"]) - 0.5 * float((z ** 2).sum())
        if not (abs(got - ref) <= 1e-10 * max(1.0, abs(ref)) * TOLX):
            return Outcome(failure("lnlike_value", "17-parameter model, evaluation %d: lnlike %r, Gaussian log-density %r" % (i + 1, got, ref), noise="prior_scalar"), True, labels)
    return Outcome(None, True, labels)


def run_hist(case):
    """one model object evaluated at several parameter vectors in a row: every value equals the value a freshly
    built model gives for that vector, and equals the Gaussian log-density at that vector's own noise levels."""
    import xarray as xr
    from holopy.core import prior
    from holopy.core.metadata import detector_grid, make_subset_data
    from holopy.scattering import Sphere, Mie, calc_holo
    from holopy.inference import AlphaModel, ExactModel
    t = case["truth"]
    nx, ny = case["shape"]; sp = case["spacing"]
    chans = ["red", "green"]
    per_channel = case["noise"] != "prior_scalar"
    okw = dict(medium_index=1.33, illum_wavelen={"red": 0.66, "green": 0.52} if per_channel else 0.66, illum_polarization=(1.0, 0.0))

    def make_model():
        sph = Sphere(n=prior.Uniform(1.4, 1.8), r=prior.Uniform(0.2, 0.9), center=[0.5 * nx * sp, 0.5 * ny * sp, t["z"]])
        if case["noise"] == "prior_scalar":
            noise = prior.Uniform(0.01, 0.6)
        elif case["noise"] == "prior_per_channel":
            noise = {"red": prior.Uniform(0.01, 0.6), "green": prior.Uniform(0.01, 0.6)}
        elif case["noise"] == "mixed_per_channel":
            noise = {"green": 0.2, "red": prior.Uniform(0.01, 0.6)}
        else:
            noise = {"red": 0.07, "green": 0.2}
        if case["model"] == "alpha":
            return AlphaModel(sph, alpha=prior.Uniform(0.5, 1.0), noise_sd=noise, theory=Mie(), **okw)
        return ExactModel(sph, noise_sd=noise, theory=Mie(), **okw)
    if case["model"] == "many_parameters":
        return _run_many(case)
    det = detector_grid((nx, ny), sp, extra_dims={"illumination": chans} if per_channel else None)
    clean = calc_holo(det, Sphere(n=t["n"], r=t["r"], center=[0.5 * nx * sp, 0.5 * ny * sp, t["z"]]), theory=Mie(), scaling=0.8, **okw)
    rng = np.random.RandomState(case["resid_seed"])
    data = clean + 0.05 * rng.standard_normal(clean.shape)
    data.attrs = clean.attrs
    if case["subset"] is not None and not per_channel:
        data = make_subset_data(data, pixels=max(1, int(case["subset"] * nx * ny)), seed=case["resid_seed"] % 1000)
    model = make_model()
    names = list(model._parameter_names)
    labels = [case["noise"], case["model"], "vectors_%d" % len(case["vecs"])]

    def vector(u):
        out = []
        for nmme in names:
            base = nmme.split(":")[-1]
            if base == "n":
                out.append(1.4 + 0.4 * u["n"])
            elif base == "r":
                out.append(0.2 + 0.7 * u["r"])
            elif base == "alpha":
                out.append(0.5 + 0.5 * u["alpha"])
            elif "red" in nmme or base == "noise_sd":
                out.append(0.01 + 0.59 * u["s1"])
            elif "green" in nmme:
                out.append(0.01 + 0.59 * u["s2"])
            else:
                return None
        return out
    seen = []
    for i, u in enumerate(case["vecs"]):
        vec = vector(u)
        if vec is None:
            return Outcome(failure("harness_error", "cannot map parameters %r" % names), False, labels)
        got = model.lnlike(vec, data)
        fresh = make_model().lnlike(vec, data)
        if got != fresh:
            return Outcome(failure("lnlike_depends_on_history", "evaluation %d of one model object gives lnlike %r, a freshly built model %r (parameters %r)"
                                   % (i + 1, got, fresh, dict(zip(names, vec))), noise=case["noise"]), True, labels)
        gp = model.lnposterior(vec, data)
        if gp != model.lnprior(vec) + got:
            return Outcome(failure("lnposterior_sum", "evaluation %d: lnposterior %r != lnprior + lnlike" % (i + 1, gp)), True, labels)
        # reference Gaussian log-density with this vector's own noise levels
        val = dict(zip(names, vec))
        scat = model.scatterer_from_parameters(vec)
        alpha = next((v for k_, v in val.items() if k_.split(":")[-1] == "alpha"), None)
        pub = calc_holo(data, scat, theory=Mie(), **(dict(okw, scaling=alpha) if alpha is not None else okw))
        resid = pub - data
        if per_channel:
            fixed = {"red": 0.07, "green": 0.2}
            sig = {}
            for c in chans:
                k_ = next((q for q in names if c in q), None)
                sig[c] = val[k_] if k_ is not None else fixed[c]
            sa = xr.DataArray([sig[c] for c in chans], dims="illumination", coords={"illumination": chans})
            z = (resid / sa).values
            logsig = float(sum(math.log(sig[c]) for c in chans)) * (resid.size / 2)
        else:
            s_ = next(v for k_, v in val.items() if k_.split(":")[-1] == "noise_sd")
            z = resid.values / s_
            logsig = resid.size * math.log(s_)
        ref = -0.5 * resid.size * math.log(2 * math.pi) - logsig - 0.5 * float((z ** 2).sum())
        if not (abs(got - ref) <= 1e-10 * max(1.0, abs(ref)) * TOLX):
            return Outcome(failure("lnlike_value", "evaluation %d: lnlike %r, Gaussian log-density at this vector's noise levels %r" % (i + 1, got, ref), noise=case["noise"]), True, labels)
        seen.append(tuple(vec))
    return Outcome(None, len(set(seen)) >= 2 and per_channel, labels)


SUBCHECKS = [
    Sub("posterior_decomposition", strat, run, 3000, 50000,
        "AlphaModel / ExactModel / ExactModel with a counting calc_func on a sphere or a two-sphere collection with "
        "Uniform/Gaussian/BoundedGaussian/fixed n, r, x, z, alpha, optional LimitOverlaps(fraction); optics from model, data "
        "or split; noise: model scalar / model prior / data scalar / model over data / none / per-channel (model or data, 2 "
        "channels); data = forward(truth) + seeded residuals on a full grid or a seeded pixel subset; parameter vectors "
        "inside, on a bound, outside, negative radius, overlapping. Oracles: lnprior = sum of own log-densities or -inf "
        "(and then no forward call, lnposterior -inf); forward bit-equal to public calc_holo; lnlike = own Gaussian "
        "log-density at the applicable noise; lnposterior = lnprior+lnlike; pixels= equals the same random subset; "
        "LnpostWrapper sign; non-trivial = >=2 free parameters and non-zero residuals",
        tolerances={"rel": 1e-10}),
    Sub("evaluation_history", strat_hist, run_hist, 1200, 20000,
        "AlphaModel / ExactModel on one sphere with free n, r (alpha) and a noise level that is a prior, a per-channel "
        "dictionary of priors, a dictionary mixing a prior and a number, or a dictionary of numbers (2 channels with their "
        "own wavelength); 2-5 parameter vectors evaluated in a row on ONE model object: lnlike equals that of a freshly "
        "built model (no state carried between evaluations), equals the own Gaussian log-density at that vector's "
        "noise levels, and lnposterior = lnprior + lnlike; non-trivial = per-channel noise and >=2 distinct vectors",
        tolerances={"history": "bitwise", "rel": 1e-10}),
]
