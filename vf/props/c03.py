"""C03 — cross sections obey energy conservation and the optical theorem."""
import math

import numpy as np
from hypothesis import strategies as st

from ..runner import Sub, Outcome, failure, TOLX
from .. import gen
from ..oracles import refmie
from .c02 import size_class

PROPERTY = "C03"
ASSUMPTIONS = [
    "textbook efficiencies (B&H 4.61, 4.62, p.120) from the independent BHMIE coefficients",
    "Gauss-Legendre quadrature in cos(theta) of order >= 2*N_wiscombe+10 integrates |S|^2 (a polynomial of degree "
    "<= 2N in cos theta) exactly up to rounding",
]


def layered_or_uniform(xlo, xhi, max_layers=3):
    """sphere description: outer size parameter + layer fractions + relative indices."""
    return st.fixed_dictionaries({
        "x": gen.size_param(xlo, xhi),
        "fr": st.lists(st.floats(0.1, 1.0), min_size=1, max_size=max_layers),
        "m": st.lists(gen.rel_index(), min_size=max_layers, max_size=max_layers),
        "absorbing": st.booleans(),
    })


def build_sphere(sd, o, center=None, cap=200.0):
    from holopy.scattering import Sphere
    k = gen.wavevec(o)
    nl = len(sd["fr"])
    fr = np.cumsum(sd["fr"]); fr = fr / fr[-1]
    radii = [float(f * sd["x"] / k) for f in fr]
    ms = [complex(m[0], m[1] if sd["absorbing"] else 0.0) for m in sd["m"][:nl]]
    ms = [m if m.imag * sd["x"] <= cap else complex(m.real, cap / sd["x"]) for m in ms]
    ns = [(m if m.imag else m.real) * o["nm"] for m in ms]
    if nl == 1:
        return Sphere(n=ns[0], r=radii[0], center=center), ms, radii
    if any(b <= a for a, b in zip(radii[:-1], radii[1:])):
        return None, ms, radii
    return Sphere(n=ns, r=radii, center=center), ms, radii


# ------------------------------------------------------------------------------------------
def strat_ident(tier):
    return st.fixed_dictionaries({"o": gen.optics(any_norm=True), "s": layered_or_uniform(1e-3, 500.0 if tier == "quick" else 900.0)})


def run_ident(case):
    from holopy.scattering import calc_cross_sections, calc_scat_matrix, Mie
    import holopy as hp
    o, sd = case["o"], case["s"]
    sph, ms, radii = build_sphere(sd, o)
    if sph is None:
        return Outcome(None, False, ["degenerate_radii"], skipped=True)
    k = gen.wavevec(o)
    nl = len(radii)
    absorbing = any(m.imag > 0 for m in ms)
    labels = ["layers_%d" % nl, size_class(sd["x"]), "absorbing" if absorbing else "real"]
    cs = calc_cross_sections(sph, theory=Mie(), **gen.optics_kwargs(o))
    names = list(cs.cross_section.values)
    v = cs.values
    csca, cabs, cext, g = [float(t) for t in v]
    facts = dict(layered=nl > 1, regime="x<3" if sd["x"] < 3 else "x>=3", absorbing=absorbing)
    # layered spheres: distance of the layer arguments from a zero of psi_n (see C02 layered_reductions: the
    # recursion loses digits like 3e5 eps / p there, which shows here as C_abs != 0 for real indices)
    pz = 1.0
    if nl > 1:
        from .c02 import _zero_proximity
        for l in range(1, nl):
            for z in (ms[l] * k * radii[l - 1], ms[l] * k * radii[l]):
                pz = min(pz, _zero_proximity(z))
        if pz < 1e-3:
            facts["near_riccati_bessel_zero"] = True
            labels.append("near_riccati_bessel_zero")
    if names != ["scattering", "absorbtion", "extinction", "assymetry"]:
        return Outcome(failure("labels", "unexpected cross_section labels %r" % names), True, labels)
    if not all(math.isfinite(t) for t in (csca, cabs, cext, g)):
        return Outcome(failure("nonfinite", "cross sections not finite: %r" % v.tolist(), **facts), True, labels)
    met = {}
    if not (abs(cext - (csca + cabs)) <= 1e-12 * TOLX * abs(cext)):
        return Outcome(failure("energy_conservation", "C_ext != C_sca + C_abs: %r" % v.tolist(), **facts), True, labels)
    if not csca > 0:
        return Outcome(failure("scattering_not_positive", "C_sca = %r" % csca, **facts), True, labels)
    if not (-1 - 1e-12 <= g <= 1 + 1e-12):
        return Outcome(failure("asymmetry_range", "g = %r" % g, **facts), True, labels)
    if absorbing:
        if cabs < -1e-9 * TOLX * cext:
            return Outcome(failure("absorption_negative", "C_abs = %.6g with C_ext = %.6g (x=%.4g)" % (cabs, cext, sd["x"]), **facts), True, labels)
    else:
        met["abs_over_ext_real_index" + ("_layered_" + size_class(sd["x"]) if nl > 1 else "")] = abs(cabs) / cext if cext else float("inf")
        # homogeneous: C_ext - C_sca cancels to roundoff.  Layered: roundoff of the recursion, 1e-9 + the 1/p law
        # (1e7 eps / p down to p = 1e-3; closer to a zero it is the known finding, inside 1e8 eps / p)
        lim = 1e-9 if nl == 1 else (1e-9 + 1e7 * 2.0 ** -52 / max(pz, 1e-3))
        if nl > 1 and pz < 1e-3 and abs(cabs) > 1e8 * 2.0 ** -52 / pz * abs(cext):
            facts.pop("near_riccati_bessel_zero", None)      # beyond the law: not the known finding
        if not (abs(cabs) <= lim * TOLX * abs(cext)):
            return Outcome(failure("absorption_nonzero_for_real_index",
                                   "C_abs/C_ext = %.3g (x=%.4g, layers=%d, distance of a layer argument from a zero of psi_n: %.2g)" % (cabs / cext, sd["x"], nl, pz), **facts), True, labels)
    # optical theorem across entry points: C_ext = 4 pi / k^2 Re S(0)
    det = hp.detector_points(theta=0.0, phi=0.0)
    S = calc_scat_matrix(det, sph, o["nm"], o["wl"], theory=Mie()).values[0]
    for idx in (0, 1):
        ot = 4 * math.pi / k ** 2 * S[idx, idx].real
        met["optical_theorem_rel"] = max(met.get("optical_theorem_rel", 0), abs(ot - cext) / abs(cext))
        if not (abs(ot - cext) <= 1e-6 * TOLX * abs(cext)):
            return Outcome(failure("optical_theorem", "4pi/k^2 Re S(0) = %.10g vs C_ext = %.10g" % (ot, cext), **facts), True, labels)
    return Outcome(None, abs(ms[0] - 1) > 0.02, labels, metrics=met)


# ------------------------------------------------------------------------------------------
def strat_text(tier):
    return st.fixed_dictionaries({"o": gen.optics(any_norm=True), "s": gen.sphere_dimless(1e-3, 500.0 if tier == "quick" else 900.0)})


def run_text(case):
    from holopy.scattering import calc_cross_sections, Mie
    o, s = case["o"], case["s"]
    if s["m"][1] * s["x"] > 600:
        return Outcome(None, False, ["excluded_large_absorption"], skipped=True)
    k = gen.wavevec(o)
    sph = gen.make_sphere(s, o, None)
    v = calc_cross_sections(sph, theory=Mie(), **gen.optics_kwargs(o)).values
    m = complex(*s["m"])
    qs, qe, g = refmie.efficiencies(m, s["x"])
    area = math.pi * (s["x"] / k) ** 2
    labels = [size_class(s["x"]), "absorbing" if s["m"][1] else "real"]
    es = abs(v[0] / area - qs) / qs
    ee = abs(v[2] / area - qe) / qe
    eg = abs(v[3] - g)
    # absorption: relative to extinction (it is a difference)
    ea = abs(v[1] / area - (qe - qs)) / qe
    met = {"qsca_rel": es, "qext_rel": ee, "g_abs": eg, "qabs_rel_to_ext": ea}
    if not (max(es, ee, ea) <= 1e-7 * TOLX) or not (eg <= 1e-7 * TOLX) or not np.all(np.isfinite([es, ee, ea, eg])):
        return Outcome(failure("vs_textbook", "rel err sca %.3g ext %.3g abs %.3g, g abs err %.3g (x=%.4g m=%r)" % (es, ee, ea, eg, s["x"], m),
                               size=size_class(s["x"])), True, labels)
    # Rayleigh limit
    if s["x"] <= 0.03:
        x = s["x"]
        f = (m * m - 1) / (m * m + 2)
        qs_r = 8.0 / 3.0 * x ** 4 * abs(f) ** 2
        labels.append("rayleigh_limit")
        if abs(v[0] / area - qs_r) > 5 * x * x * qs_r * max(1.0, abs(m) ** 2):
            return Outcome(failure("rayleigh_scattering", "Q_sca %.6g vs Rayleigh %.6g" % (v[0] / area, qs_r)), True, labels)
        if s["m"][1] > 0:
            qa_r = 4 * x * f.imag
            if abs(v[1] / area - qa_r) > (5 * x * x * max(1.0, abs(m) ** 2)) * qa_r + 2 * qs_r:
                return Outcome(failure("rayleigh_absorption", "Q_abs %.6g vs Rayleigh %.6g" % (v[1] / area, qa_r)), True, labels)
        if abs(v[3]) > 5 * x * x * max(1.0, abs(m) ** 2):
            return Outcome(failure("rayleigh_asymmetry", "g = %.3g for x = %.3g" % (v[3], x)), True, labels)
    return Outcome(None, abs(m - 1) > 0.02, labels, metrics=met)


# ------------------------------------------------------------------------------------------
def strat_quad(tier):
    return st.fixed_dictionaries({"o": gen.optics(any_norm=True),
                                  "s": layered_or_uniform(1e-2, 60.0 if tier == "quick" else 250.0),
                                  "nphi": st.integers(4, 7), "phi0": st.floats(0, 6.28)})


def run_quad(case):
    from holopy.scattering import calc_cross_sections, calc_scat_matrix, Mie
    import holopy as hp
    o, sd = case["o"], case["s"]
    sph, ms, radii = build_sphere(sd, o, cap=50.0)
    if sph is None:
        return Outcome(None, False, ["degenerate_radii"], skipped=True)
    k = gen.wavevec(o)
    nl = len(radii)
    labels = ["layers_%d" % nl, size_class(sd["x"]), "absorbing" if any(m.imag > 0 for m in ms) else "real"]
    csca, cabs, cext, g = [float(t) for t in calc_cross_sections(sph, theory=Mie(), **gen.optics_kwargs(o)).values]
    N = refmie.wiscombe(sd["x"])
    nq = 2 * N + 10
    mu, w = np.polynomial.legendre.leggauss(nq)
    theta = np.arccos(mu)
    nphi = case["nphi"]
    phis = (case["phi0"] + 2 * math.pi * np.arange(nphi) / nphi) % (2 * math.pi)
    T, P = np.meshgrid(theta, phis, indexing="ij")
    det = hp.detector_points(theta=T.ravel(), phi=P.ravel())
    S = calc_scat_matrix(det, sph, o["nm"], o["wl"], theory=Mie()).transpose("point", "E_out", "E_in").values
    pang = math.atan2(o["pol"][1], o["pol"][0])
    # incident field components parallel / perpendicular to the scattering plane at azimuth phi
    epar = np.cos(P.ravel() - pang)
    eperp = np.sin(P.ravel() - pang)
    Epar = S[:, 0, 0] * epar + S[:, 0, 1] * eperp
    Eperp = S[:, 1, 0] * epar + S[:, 1, 1] * eperp
    I = (np.abs(Epar) ** 2 + np.abs(Eperp) ** 2).reshape(T.shape)
    W = w[:, None] * (2 * math.pi / nphi)
    csca_q = float((I * W).sum() / k ** 2)
    gq = float((I * W * mu[:, None]).sum() / k ** 2 / csca_q)
    e1 = abs(csca_q - csca) / csca
    e2 = abs(gq - g)
    met = {"csca_quadrature_rel": e1, "g_quadrature_abs": e2}
    if not (e1 <= 1e-5 * TOLX):
        return Outcome(failure("solid_angle_scattering", "integral %.10g vs C_sca %.10g (rel %.3g)" % (csca_q, csca, e1), layered=nl > 1), True, labels)
    if not (e2 <= 1e-5 * TOLX):
        return Outcome(failure("solid_angle_asymmetry", "integral %.10g vs g %.10g" % (gq, g), layered=nl > 1), True, labels)
    return Outcome(None, abs(ms[0] - 1) > 0.02, labels, metrics=met)


# ------------------------------------------------------------------------------------------
def strat_ms(tier):
    return st.fixed_dictionaries({"o": gen.optics(any_norm=True), "s": gen.sphere_dimless(0.05, 12.0, mlo=0.6, mhi=2.2),
                                  "wrap": st.booleans(), "warm": gen.warm_strategy()})


def run_ms(case):
    from holopy.scattering import calc_cross_sections, Mie, Multisphere, Spheres
    o, s = case["o"], case["s"]
    if s["m"][1] * s["x"] > 20:
        s = dict(s); s["m"] = [s["m"][0], round(20.0 / s["x"], 7)]
    k = gen.wavevec(o)
    sph = gen.make_sphere(s, o, (0.0, 0.0, 0.0))
    msth = Multisphere(qeps1=1e-9, qeps2=1e-12)
    # one theory object, used before on a sibling sphere (a remembered solution must not come back)
    gen.warm_up(msth, Spheres([sph]) if case["wrap"] else sph, o, case.get("warm"))
    a = calc_cross_sections(Spheres([sph]) if case["wrap"] else sph, theory=msth, **gen.optics_kwargs(o)).values
    b = calc_cross_sections(sph, theory=Mie(), **gen.optics_kwargs(o)).values
    labels = [size_class(s["x"]), "absorbing" if s["m"][1] else "real"] + (["theory_used_before_" + case["warm"]] if case.get("warm") else [])
    rel = np.abs(a[:3] - b[:3]) / b[2]
    eg = abs(a[3] - b[3])
    met = {"sca_rel_to_ext": rel[0], "abs_rel_to_ext": rel[1], "ext_rel": rel[2], "g_abs": eg}
    if not np.all(np.isfinite(a)) or rel.max() > 5e-3 * TOLX or eg > 5e-3 * TOLX:
        return Outcome(failure("multisphere_vs_mie_cross_sections", "multisphere %r vs mie %r" % (a.tolist(), b.tolist())), True, labels)
    return Outcome(None, abs(complex(*s["m"]) - 1) > 0.02, labels, metrics=met)


SUBCHECKS = [
    Sub("identities", strat_ident, run_ident, 16000, 200000,
        "uniform and 2-3-layer spheres, outer x log-uniform [1e-3,500] (thorough 900), real or absorbing layers, any "
        "polarization norm/angle: C_ext=C_sca+C_abs, C_abs>=0 (=0 for real indices), C_sca>0, |g|<=1, and C_ext = "
        "4pi/k^2 Re S(0) from calc_scat_matrix at theta=0; non-trivial = |m_core-1|>0.02",
        tolerances={"sum_rel": 1e-12, "abs_vs_ext": 1e-9, "optical_theorem_rel": 1e-6}),
    Sub("vs_textbook", strat_text, run_text, 16000, 200000,
        "uniform spheres vs textbook Q_sca, Q_ext, Q_abs, g; Rayleigh formulas for x<=0.03 within the next-order term",
        tolerances={"rel": 1e-7, "g_abs": 1e-7, "rayleigh_rel": "5 x^2 max(1,|m|^2)"}),
    Sub("solid_angle_integrals", strat_quad, run_quad, 4000, 40000,
        "Gauss-Legendre (order 2N+10) x trapezoid (4-7 azimuths, random offset) of |S e|^2 from calc_scat_matrix gives "
        "C_sca and g*C_sca for uniform and layered spheres x in [1e-2,60] (thorough 250), any polarization",
        tolerances={"rel": 1e-5}),
    Sub("multisphere_cluster_of_one", strat_ms, run_ms, 320, 6000,
        "one-sphere cluster through Multisphere (tight options) reports the same C_sca, C_abs, C_ext, g as Mie; "
        "x in [0.05,12]; about 0.3 s per case (dblquad)",
        tolerances={"rel_to_ext": 5e-3, "g_abs": 5e-3}, budget_quick=100.0),
]
