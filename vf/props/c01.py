"""C01 — hologram = |scaling*E_scat + unit reference|^2, intensity, scaling 0, coordinates,
metadata, and independence of call history."""
import hashlib
import math
import os
import struct

import numpy as np
from hypothesis import strategies as st

from ..runner import Sub, Outcome, failure, TOLX
from .. import gen
from ..oracles import refmie

PROPERTY = "C01"
ASSUMPTIONS = [
    "identity sub-check recomputes the hologram from calc_field with harness arithmetic (own normalisation of the "
    "polarization vector); the absolute sub-check uses the independent textbook Mie near field",
    "DDA (no adda binary) and the numexpr branch of Lens cannot be executed in this sandbox",
    "bare Tmatrix only accepts polarization (1,0) (documented ValueError otherwise), so it is generated with (1,0)",
]

ALL_KINDS = ["sphere", "layered", "cluster_mie", "cluster_ms", "spheroid", "cylinder", "mielens", "amielens", "lens"]

_scaling = st.one_of(st.just(1.0), st.just(0.0), gen.logu(1e-3, 10.0), gen.logu(1e-3, 10.0).map(lambda v: -v))


def strat_identity(tier):
    side = 8 if tier == "quick" else 24
    return st.tuples(gen.case_strategy(ALL_KINDS, max_side=side, any_norm=True), _scaling,
                     st.sampled_from([None, "holo", "my det"]), st.one_of(st.none(), gen.logu(1e-3, 1.0))).map(
        lambda t: dict(t[0], scaling=t[1], name=t[2], noise=t[3]))


def _attrs_fingerprint(a):
    import xarray as xr
    out = {}
    for k, v in a.attrs.items():
        if isinstance(v, xr.DataArray):
            out[k] = ("da", tuple(v.dims), v.values.tobytes(), tuple((c, tuple(np.asarray(v.coords[c].values).ravel().tolist())) for c in sorted(v.coords)))
        elif isinstance(v, np.ndarray):
            out[k] = ("nd", v.tobytes())
        else:
            out[k] = ("py", repr(v))
    return out


def det_fingerprint(d):
    return (tuple(d.dims), d.values.tobytes(), d.name,
            tuple((c, tuple(d.coords[c].dims), np.asarray(d.coords[c].values).tobytes() if np.asarray(d.coords[c].values).dtype != object else repr(d.coords[c].values.tolist()))
                  for c in sorted(d.coords)),
            tuple(sorted((k, repr(v)) for k, v in _attrs_fingerprint(d).items())))


def check_coords(res, det, what, extra_dims=()):
    """result lies on exactly the detector's coordinates (by label)."""
    want_dims = set(det.dims)
    got_dims = set(res.dims) - set(extra_dims)
    if got_dims != want_dims:
        return "%s: dims %r, detector dims %r" % (what, sorted(res.dims), sorted(det.dims))
    for c in ("x", "y", "z"):
        if c not in res.coords:
            return "%s: coordinate %s missing" % (what, c)
        a = np.asarray(res.coords[c].values)
        b = np.asarray(det.coords[c].values)
        if res.coords[c].dims != det.coords[c].dims:
            return "%s: coordinate %s has dims %r, detector %r" % (what, c, res.coords[c].dims, det.coords[c].dims)
        if a.shape != b.shape or not np.array_equal(a, b):
            return "%s: coordinate %s differs from the detector's" % (what, c)
    for d in det.dims:
        if res.sizes[d] != det.sizes[d]:
            return "%s: size of %s differs" % (what, d)
    return None


def run_identity(case):
    from holopy.scattering import calc_holo, calc_field, calc_intensity
    import holopy as hp
    import xarray as xr
    o, det, sc = case["o"], case["det"], case["sc"]
    unit = o["wl"] / o["nm"]
    d = gen.build_detector(det, unit, name=case["name"])
    if case["noise"] is not None:
        d = hp.core.update_metadata(d, noise_sd=case["noise"])
    s, th, info = gen.build_scene(sc, o, det)
    alpha = case["scaling"]
    kw = gen.optics_kwargs(o)
    lab = gen.scene_label(sc)
    labels = [lab, det["kind"], "alpha0" if alpha == 0 else ("alpha_neg" if alpha < 0 else "alpha_pos")]
    fp0 = det_fingerprint(d)
    try:
        E = calc_field(d, s, theory=th, **kw)
        H = calc_holo(d, s, theory=th, scaling=alpha, **kw)
        I = calc_intensity(d, s, theory=th, **kw)
    except Exception as e:
        if type(e).__name__ == "MultisphereFailure":
            return Outcome(None, False, labels + ["MultisphereFailure"], skipped=True)
        raise
    facts = dict(theory=sc["th"]["t"], detector=det["kind"])
    if det_fingerprint(d) != fp0:
        return Outcome(failure("detector_mutated", "the detector passed in was modified", **facts), True, labels)
    # --- shape / coordinates / metadata
    for res, what, extra in ((E, "calc_field", ("vector",)), (H, "calc_holo", ()), (I, "calc_intensity", ())):
        msg = check_coords(res, d, what, extra)
        if msg:
            return Outcome(failure("coordinates", msg, what=what, **facts), True, labels)
        if not np.all(np.isfinite(res.values)):
            return Outcome(failure("nonfinite", "%s returned non-finite values" % what, what=what, **facts), True, labels)
        if res.name != d.name:
            return Outcome(failure("name", "%s: name %r, detector name %r" % (what, res.name, d.name), what=what), True, labels)
        if res.attrs.get("medium_index") != o["nm"] or res.attrs.get("illum_wavelen") != o["wl"]:
            return Outcome(failure("metadata", "%s: optics not recorded: %r" % (what, {k: res.attrs.get(k) for k in ("medium_index", "illum_wavelen")}), what=what), True, labels)
        pol = res.attrs.get("illum_polarization")
        nrm = math.hypot(*o["pol"])
        want_pol = np.array([o["pol"][0] / nrm, o["pol"][1] / nrm, 0.0])
        if pol is None or np.max(np.abs(np.asarray(pol.values, dtype=float) - want_pol)) > 1e-15:
            return Outcome(failure("metadata", "%s: polarization attr %r, expected normalised %r" % (what, pol, want_pol.tolist()), what=what), True, labels)
        if res.attrs.get("noise_sd") != case["noise"]:
            return Outcome(failure("metadata", "%s: noise_sd %r, detector had %r" % (what, res.attrs.get("noise_sd"), case["noise"]), what=what), True, labels)
    if list(E.vector.values) != ["x", "y", "z"]:
        return Outcome(failure("vector_labels", "field components labelled %r" % list(E.vector.values)), True, labels)
    # --- identity, evaluated by label
    pts_e, ev = gen.flatten(E)
    pts_h, hv = gen.flatten(H)
    pts_i, iv = gen.flatten(I)
    if not (np.array_equal(pts_e, pts_h) and np.array_equal(pts_e, pts_i)):
        return Outcome(failure("coordinates", "field/hologram/intensity do not share pixel coordinates", **facts), True, labels)
    nrm = math.hypot(*o["pol"])
    ux, uy = o["pol"][0] / nrm, o["pol"][1] / nrm
    want_h = np.abs(alpha * ev[:, 0] + ux) ** 2 + np.abs(alpha * ev[:, 1] + uy) ** 2
    want_i = np.abs(ev[:, 0]) ** 2 + np.abs(ev[:, 1]) ** 2
    eh = np.max(np.abs(hv - want_h) / np.maximum(1.0, np.abs(want_h)))
    ei = np.max(np.abs(iv - want_i) / np.maximum(1e-300, np.maximum(np.abs(want_i), np.max(np.abs(want_i)) * 1e-3)))
    met = {"holo_identity_rel": eh, "intensity_identity_rel": ei}
    if not (eh <= 1e-12 * TOLX):
        return Outcome(failure("hologram_identity", "hologram differs from |alpha*E+e|^2 by %.3g (alpha=%r)" % (eh, alpha), **facts), True, labels)
    if not (ei <= 1e-12 * TOLX):
        return Outcome(failure("intensity_identity", "intensity differs from |E|^2 by %.3g" % ei, **facts), True, labels)
    if alpha == 0:
        dev = np.max(np.abs(hv - 1.0))
        met["alpha0_dev"] = dev
        if dev > 4 * np.finfo(float).eps:
            return Outcome(failure("scaling_zero", "scaling 0 gives values differing from 1 by %.3g" % dev, **facts), True, labels)
    nontrivial = (len(hv) >= 2 and np.max(np.abs(want_i)) > 0 and
                  (alpha == 0 or np.max(np.abs(np.abs(ev[:, 0] * 1.0 + ux) ** 2 + np.abs(ev[:, 1] + uy) ** 2 - 1)) > 1e-6))
    return Outcome(None, nontrivial, labels, metrics=met)


# ------------------------------------------------------------------------------------------
# b. absolute oracle: hologram recomputed from the independent Mie reference field
# ------------------------------------------------------------------------------------------
def strat_abs(tier):
    side = 8 if tier == "quick" else 20
    base = st.fixed_dictionaries({"o": gen.optics(any_norm=True), "det": gen.any_detector(side),
                                  "sc": st.one_of(gen.scene_sphere(60.0), gen.scene_cluster("mie", 3, 20.0))})
    return st.tuples(base, _scaling).map(lambda t: dict(t[0], scaling=t[1]))


def run_abs(case):
    from holopy.scattering import calc_holo
    o, det, sc = case["o"], case["det"], case["sc"]
    unit = o["wl"] / o["nm"]
    k = gen.wavevec(o)
    d = gen.build_detector(det, unit)
    s, th, info = gen.build_scene(sc, o, det)
    alpha = case["scaling"]
    H = calc_holo(d, s, theory=th, scaling=alpha, **gen.optics_kwargs(o))
    pts, hv = gen.flatten(H, gen.detector_points_xyz(det, unit))
    if pts is None:
        pts = gen.detector_points_xyz(det, unit)
    members = [sc["s"]] if sc["kind"] == "sphere" else sc["mem"]
    Eref = np.zeros((len(pts), 3), dtype=complex)
    Ew = np.zeros((len(pts), 3), dtype=complex)
    sermag = 0.0
    for mem, c, r in zip(members, info["centers"], info["radii"]):
        if mem["m"][1] * mem["x"] > 600:
            return Outcome(None, False, ["excluded_large_absorption"], skipped=True)
        args = (complex(*mem["m"]) * o["nm"], r, c, pts, o["nm"], o["wl"], o["pol"])
        Eref += refmie.holopy_field(*args, full_radial=sc["th"]["full"], radial_component=sc["th"]["radial"])
        Ew += refmie.holopy_field(*args, full_radial=sc["th"]["full"], radial_component=sc["th"]["radial"],
                                  nmax=refmie.wiscombe(mem["x"]))
        a_, b_ = refmie.mie_ab(complex(*mem["m"]), mem["x"])
        n_ = np.arange(1, len(a_) + 1)
        krmin = k * np.sqrt(((pts - np.array(c)) ** 2).sum(1)).min()
        sermag += 0.5 * np.sum((2 * n_ + 1) * (np.abs(a_) + np.abs(b_))) / krmin
    nrm = math.hypot(*o["pol"])
    ux, uy = o["pol"][0] / nrm, o["pol"][1] / nrm

    def holo(E):
        return np.abs(alpha * E[:, 0] + ux) ** 2 + np.abs(alpha * E[:, 1] + uy) ** 2
    want, want_w = holo(Eref), holo(Ew)
    labels = [gen.scene_label(sc), det["kind"]]
    if not np.all(np.isfinite(want)):
        return Outcome(None, False, labels + ["reference_nonfinite"], skipped=True)
    escale = np.abs(Eref).max()
    # d|a E + u|^2 <= 2 |a| (1 + |a| |E|) dE
    amp = 2 * abs(alpha) * (1 + abs(alpha) * escale)
    tol_round = amp * (1e-6 * escale + 1e-7 * sermag) + 1e-13
    trunc = np.abs(want - want_w).max()
    err = np.abs(hv - want).max()
    err_w = np.abs(hv - want_w).max()
    met = {"abs_err_over_tol": min(err_w / tol_round, err / (tol_round + 3 * trunc))}
    if not (err_w <= tol_round * TOLX) and not (err <= (tol_round + 3 * trunc) * TOLX):
        return Outcome(failure("hologram_vs_independent_reference",
                               "hologram differs from the textbook-Mie hologram by %.3g (tolerance %.3g, |E|max %.3g, alpha %r)"
                               % (err, tol_round + 3 * trunc, escale, alpha), kind=sc["kind"]), True, labels)
    nontrivial = len(hv) >= 2 and alpha != 0 and np.max(np.abs(want - 1)) > 1e-6
    return Outcome(None, nontrivial, labels, metrics=met)


# ------------------------------------------------------------------------------------------
# d. history independence
# ------------------------------------------------------------------------------------------
HIST_KINDS = ["sphere", "layered", "cluster_mie", "cluster_ms", "spheroid", "cylinder", "mielens", "lens"]


def _siblings(spec, which):
    """the same configuration with only the theory options (or one optical quantity) changed: results that a
    cache keyed too coarsely would confuse."""
    sc = spec["sc"]
    th = dict(sc["th"])
    t = th["t"]
    if which == "optics":
        return dict(spec, o=dict(spec["o"], pol=[spec["o"]["pol"][1] + 0.3, spec["o"]["pol"][0] + 0.1]))
    if t == "mie":
        th["radial"] = not th.get("radial", True) if which == "a" else th.get("radial", True)
        th["full"] = not th.get("full", True) if which != "a" else th.get("full", True)
    elif t == "ms":
        if which == "a":
            th["tight"] = not th.get("tight", False)
        elif which == "b":
            th["meth"] = 1 - th.get("meth", 1)
        else:
            th["radial"] = not th.get("radial", False)
    elif t in ("mielens", "amielens", "lens"):
        th["lens_angle"] = round(min(1.2, th["lens_angle"] * 0.8 + 0.05), 4)
    else:
        return dict(spec, o=dict(spec["o"], wl=round(spec["o"]["wl"] * 1.07, 4)))
    return dict(spec, sc=dict(sc, th=th))


def strat_history(tier):
    base = st.lists(st.tuples(gen.case_strategy(HIST_KINDS, max_side=5), st.sampled_from([None, "a", "b", "c", "optics"])), min_size=2, max_size=5)
    pool = base.map(lambda l: [x for spec, w in l for x in ([spec] if w is None else [spec, _siblings(spec, w)])])
    return pool.flatmap(lambda p: st.fixed_dictionaries({
        "pool": st.just(p),
        "seq": st.lists(st.tuples(st.integers(0, len(p) - 1), st.sampled_from(["holo", "field", "intensity"])).map(list),
                        min_size=4, max_size=14 if tier == "quick" else 30),
    }))


def _compute_bytes(spec, what, theories=None):
    import json
    from holopy.scattering import calc_holo, calc_field, calc_intensity
    o, det, sc = spec["o"], spec["det"], spec["sc"]
    unit = o["wl"] / o["nm"]
    d = gen.build_detector(det, unit)
    s, th, info = gen.build_scene(sc, o, det)
    if theories is not None:
        # one theory object per distinct theory specification is shared by all calculations of the history
        # (as a user would do), so that state kept on theory objects is exercised as well
        th = theories.setdefault(json.dumps(sc["th"], sort_keys=True), th)
    f = {"holo": calc_holo, "field": calc_field, "intensity": calc_intensity}[what]
    try:
        r = f(d, s, theory=th, **gen.optics_kwargs(o))
    except Exception as e:
        return ("EXC:" + type(e).__name__).encode()
    return np.ascontiguousarray(r.values).tobytes()


def _pristine(spec, what):
    """value computed in a forked child of a process state that has not run this history."""
    r, w = os.pipe()
    pid = os.fork()
    if pid == 0:
        try:
            os.close(r)
            b = _compute_bytes(spec, what)
            with os.fdopen(w, "wb") as fh:
                fh.write(b)
        finally:
            os._exit(0)
    os.close(w)
    with os.fdopen(r, "rb") as fh:
        data = fh.read()
    os.waitpid(pid, 0)
    return data


def run_history(case):
    # the whole history runs in this (forked, per-case) process; the pristine values come from
    # children forked *before* the history starts, i.e. from a process state without it.
    pool, seq = case["pool"], case["seq"]
    pristine = {}
    for i, what in {(i, w) for i, w in seq}:
        pristine[(i, what)] = _pristine(pool[i], what)
    first = {}
    kinds = set()
    repeats = 0
    theories = {}
    for step, (i, what) in enumerate(seq):
        b = _compute_bytes(pool[i], what, theories)
        kinds.add(gen.scene_label(pool[i]["sc"]))
        if b[:4] == b"EXC:":
            if pristine[(i, what)] != b:
                return Outcome(failure("history_exception", "step %d raises %s but a fresh process gives %s" % (
                    step, b.decode(), pristine[(i, what)][:40]), theory=pool[i]["sc"]["th"]["t"]), True, [])
            continue
        if (i, what) in first:
            repeats += 1
            if first[(i, what)] != b:
                return Outcome(failure("history_repeat", "step %d: repeating calculation %d (%s, %s) gives different bytes than its first evaluation"
                                       % (step, i, what, gen.scene_label(pool[i]["sc"])), theory=pool[i]["sc"]["th"]["t"]), True, [])
        else:
            first[(i, what)] = b
        if pristine[(i, what)] != b:
            return Outcome(failure("history_dependence", "step %d: calculation %d (%s, %s) differs from its value in a fresh process"
                                   % (step, i, what, gen.scene_label(pool[i]["sc"])), theory=pool[i]["sc"]["th"]["t"]), True, [])
    fortran = {k for k in kinds if any(t in k for t in ("+mie", "+ms", "+tmatrix", "+lens"))}
    return Outcome(None, len(fortran) >= 2 and repeats >= 1, ["kinds_%d" % len(kinds), "repeats" if repeats else "norepeat"])


# ------------------------------------------------------------------------------------------
# b2. several illumination channels against the independent reference, channel by channel
# ------------------------------------------------------------------------------------------
def strat_multi(tier):
    ch = st.fixed_dictionaries({"wl": gen.rounded(0.4, 0.9, 4), "pol": gen.polarization(True), "alpha": gen.rounded(0.3, 1.2, 3)})
    return st.fixed_dictionaries({
        "nm": st.sampled_from([1.0, 1.33, 1.5]), "x": gen.size_param(0.3, 12.0), "m": gen.rel_index(None, 1.05, 2.0),
        "ch": st.lists(ch, min_size=2, max_size=3, unique_by=lambda c: c["wl"]),
        "labels": st.sampled_from([["red", "green", "blue"], ["green", "red", "blue"], ["b", "a", "c"], [2, 0, 1]]),
        # wavelength, polarization and scaling are each keyed in an order of their own
        "perms": st.lists(st.permutations([0, 1, 2]), min_size=3, max_size=3),
        "forms": st.lists(st.sampled_from(["dict", "dataarray"]), min_size=3, max_size=3),
        "shape": st.tuples(st.integers(1, 5), st.integers(1, 5)).map(list), "spacing": gen.rounded(0.05, 0.3, 3),
        "c": st.tuples(gen.rounded(-0.5, 1.0, 3), gen.rounded(-0.5, 1.0, 3), gen.rounded(4.0, 20.0, 2)).map(list),
        "what": st.sampled_from(["holo", "holo", "field", "intensity"]),
    })


def run_multi(case):
    import xarray as xr
    import holopy as hp
    from holopy.scattering import calc_holo, calc_field, calc_intensity, Sphere, Mie
    nch = len(case["ch"])
    labs = case["labels"][:nch]
    nm = case["nm"]
    k0 = 2 * math.pi * nm / case["ch"][0]["wl"]
    r = case["x"] / k0
    n = (complex(*case["m"]) if case["m"][1] else case["m"][0]) * nm
    sph = Sphere(n=n, r=r, center=tuple(case["c"]))
    d = hp.detector_grid(tuple(case["shape"]), case["spacing"], extra_dims={"illumination": labs})

    def keyed(j, per_label, vector=False):
        order = [labs[i] for i in case["perms"][j] if i < nch]
        if case["forms"][j] == "dict":
            return {l: per_label[l] for l in order}
        if vector:
            return xr.DataArray(np.array([list(per_label[l]) + [0.0] for l in order], dtype=float), dims=["illumination", "vector"],
                                coords={"illumination": order, "vector": ["x", "y", "z"]})
        return xr.DataArray([per_label[l] for l in order], dims="illumination", coords={"illumination": order})
    wl = keyed(0, {l: c["wl"] for l, c in zip(labs, case["ch"])})
    pol = keyed(1, {l: tuple(c["pol"]) for l, c in zip(labs, case["ch"])}, vector=True)
    alpha = {l: c["alpha"] for l, c in zip(labs, case["ch"])}
    what = case["what"]
    labels = [what, "channels_%d" % nch, "wl_" + case["forms"][0], "pol_" + case["forms"][1],
              "orders_differ" if [i for i in case["perms"][0] if i < nch] != [i for i in case["perms"][1] if i < nch] else "orders_same"]
    th = Mie()
    if what == "holo":
        res = calc_holo(d, sph, nm, wl, pol, theory=th, scaling=keyed(2, alpha))
    elif what == "field":
        res = calc_field(d, sph, nm, wl, pol, theory=th)
    else:
        res = calc_intensity(d, sph, nm, wl, pol, theory=th)
    if "illumination" not in res.dims or sorted(map(str, res.illumination.values)) != sorted(map(str, labs)):
        return Outcome(failure("multi_channel_labels", "result channels %r, expected %r" % (list(res.coords.get("illumination", xr.DataArray([])).values), labs)), True, labels)
    X, Y = np.meshgrid(d.x.values, d.y.values, indexing="ij")
    pts = np.stack([X.ravel(), Y.ravel(), np.zeros(X.size)], axis=1)
    worst = 0.0
    for l, c in zip(labs, case["ch"]):
        E = refmie.holopy_field(n, r, case["c"], pts, nm, c["wl"], c["pol"], full_radial=True, radial_component=True)
        nrm = math.hypot(*c["pol"]); ux, uy = c["pol"][0] / nrm, c["pol"][1] / nrm
        got = res.sel(illumination=l)
        if what == "field":
            g = np.stack([got.sel(vector=v).transpose("x", "y", "z").values.ravel() for v in ("x", "y", "z")], axis=1)
            err = np.abs(g - E).max(); scale = np.abs(E).max()
        else:
            g = got.transpose("x", "y", "z").values.ravel()
            a = c["alpha"]
            want = (np.abs(a * E[:, 0] + ux) ** 2 + np.abs(a * E[:, 1] + uy) ** 2) if what == "holo" else (np.abs(E[:, :2]) ** 2).sum(1)   # detected intensity: the transverse components
            err = np.abs(g - want).max(); scale = max(np.abs(want).max(), 1e-300) if what == "intensity" else 1.0 + np.abs(E).max()
        worst = max(worst, err / scale)
        if not (err <= 3e-6 * scale * TOLX):
            return Outcome(failure("multi_channel_vs_independent_reference", "channel %r of the multi-channel %s differs from the textbook value for that channel's "
                                   "wavelength/polarization/scaling by %.3g (rel); wavelengths keyed %r, polarizations keyed %r"
                                   % (l, what, err / scale, [labs[i] for i in case["perms"][0] if i < nch], [labs[i] for i in case["perms"][1] if i < nch]), what=what), True, labels)
    return Outcome(None, True, labels, metrics={"multi_channel_" + what: worst})


SUBCHECKS = [
    Sub("identity_shape_metadata", strat_identity, run_identity, 2400, 40000,
        "scatterer kind x theory (Mie 4 option sets, layered, Mie superposition, Multisphere meth 0/1, Tmatrix spheroid/"
        "cylinder, MieLens, AberratedMieLens, Lens(Mie)) x grid (1..8 per side, anisotropic, shifted, z != 0) or point "
        "detector x polarization any angle/norm x scaling {0,1,+-log-uniform[1e-3,10]}; non-trivial = >=2 pixels and the "
        "scattered field changes the hologram by >1e-6",
        tolerances={"identity_rel": 1e-12, "alpha0": "4 ulp"}),
    Sub("absolute_reference", strat_abs, run_abs, 1600, 30000,
        "single spheres (x<=60) and Mie-superposition clusters (2-3 spheres) : calc_holo vs hologram built from the "
        "independent textbook near field summed over members; tolerance as C02 (roundoff + 3x truncation uncertainty) "
        "propagated through |aE+u|^2",
        tolerances={"field": "1e-6*|E|max + 1e-7*series magnitude (+3x truncation uncertainty)"}),
    Sub("multi_channel_reference", strat_multi, run_multi, 1200, 20000,
        "one sphere (x in [0.3,12]) under 2-3 illumination channels with per-channel wavelength, polarization (any norm) and scaling, "
        "given as dictionaries or labelled arrays each keyed in an order of its own (labels incl. integers and non-colour names): "
        "every channel of calc_holo/calc_field/calc_intensity equals the textbook Mie value for that channel's own optics",
        tolerances={"rel": 3e-6}),
    Sub("history_independence", strat_history, run_history, 320, 4800,
        "pool of 2-10 generated calculations over all theories, where a calculation may be accompanied by a sibling that differs only in the theory options (Multisphere tolerances/solver/radial, Mie radial/asymptotic, lens angle) or in the polarization; a generated sequence of 4-14 (thorough 30) calls "
        "(holo/field/intensity, with repeats) in one process; every result must equal, bit for bit, its first "
        "evaluation and the value computed by a child forked before the history; non-trivial = >=2 Fortran-backed "
        "theories interleaved and at least one repeat",
        isolate=True, tolerances={"equality": "bitwise"}, budget_quick=100),
]
