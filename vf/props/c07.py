"""C07 — pixel value depends only on position: grids, points, crops, subsets agree; purity."""
import math

import numpy as np
from hypothesis import strategies as st

from ..runner import Sub, Outcome, failure, TOLX
from .. import gen
from .c01 import det_fingerprint

PROPERTY = "C07"
ASSUMPTIONS = [
    "Mie, Multisphere and Tmatrix evaluate each detector point independently, so representations must agree bit for "
    "bit; MieLens with interpolation uses Chebyshev windows that depend on the set of radii present, so agreement "
    "is to the interpolator's accuracy (tolerance 1e-6 relative, see C08) and bitwise with interpolate_integrals=False",
    "Lens theories need a common z, so their cases use grids at one z",
]

KINDS = ["sphere", "layered", "cluster_mie", "cluster_ms", "spheroid", "cylinder", "mielens", "mielens_direct"]


def _grid():
    side = st.integers(1, 9)
    return st.fixed_dictionaries({
        "kind": st.just("grid"), "shape": st.tuples(side, side),
        "spacing": st.one_of(gen.logu(0.05, 2.0).map(lambda v: [v, v]), st.tuples(gen.logu(0.05, 2.0), gen.logu(0.05, 2.0)).map(list)),
        "origin": st.one_of(st.just([0.0, 0.0]), st.tuples(gen.rounded(-20, 20, 3), gen.rounded(-20, 20, 3)).map(list)),
        "z": st.one_of(st.just(0.0), gen.rounded(-3, 3, 3)),
    })


def strat_repr(tier):
    from .c05 import _scene
    opts = []
    for kd in KINDS:
        pol = st.just([1.0, 0.0]) if kd in ("spheroid", "cylinder") else None
        sc = _scene("mielens") if kd == "mielens_direct" else _scene(kd)
        if kd == "mielens_direct":
            sc = sc.map(lambda s: dict(s, th=dict(s["th"], acc={"interpolate_integrals": False})))
        opts.append(st.fixed_dictionaries({"o": gen.optics(True, pol=pol), "det": _grid(), "sc": sc}))
    return st.tuples(st.one_of(*opts), st.integers(0, 2 ** 31 - 1), st.floats(0, 1), st.floats(0, 1),
                     st.tuples(st.floats(0, 1), st.floats(0, 1), st.floats(0, 1), st.floats(0, 1)),
                     st.sampled_from(["holo", "field"])).map(
        lambda t: dict(t[0], seed=t[1], fpix=t[2], fshuf=t[3], crop=list(t[4]), what=t[5]))


def _calc(what, det, s, th, o):
    from holopy.scattering import calc_holo, calc_field
    kw = gen.optics_kwargs(o)
    return calc_holo(det, s, theory=th, **kw) if what == "holo" else calc_field(det, s, theory=th, **kw)


def _lookup(res):
    """dict (x, y, z) -> value (hologram) or 3-vector (field), by label."""
    pts, vals = gen.flatten(res)
    return {tuple(p): (v if np.ndim(v) == 0 else tuple(v)) for p, v in zip(pts.tolist(), vals.tolist())}, pts, vals


def run_repr(case):
    import holopy as hp
    from holopy.core.metadata import make_subset_data
    from holopy.core.process import subimage
    o, det, sc = case["o"], case["det"], case["sc"]
    unit = o["wl"] / o["nm"]
    what = case["what"]
    d = gen.build_detector(det, unit)
    s, th, info = gen.build_scene(sc, o, det)
    tname = sc["th"]["t"]
    # Fortran theories evaluate points one by one -> identical bits.  MieLens is vectorised numpy:
    # with interpolation the Chebyshev windows depend on the radii present (tolerance 1e-6); with
    # direct evaluation only the summation order of numpy reductions may differ (tolerance 1e-12).
    exact = tname != "mielens"
    direct = tname == "mielens" and (sc["th"].get("acc") or {}).get("interpolate_integrals") is False
    rtol = 1e-12 if direct else 1e-6
    labels = [gen.scene_label(sc) + ("" if exact else ("(direct)" if direct else "(interp)")), what]
    try:
        full = _calc(what, d, s, th, o)
    except Exception as e:
        if type(e).__name__ == "MultisphereFailure":
            return Outcome(None, False, labels + ["MultisphereFailure"], skipped=True)
        raise
    ref, pts, vals = _lookup(full)
    scale = max(np.abs(vals).max(), 1.0 if what == "holo" else 1e-300)
    nx, ny = det["shape"]
    npix = nx * ny
    met = {}

    def compare(res, name):
        got, p2, v2 = _lookup(res)
        worst = 0.0
        for key, v in got.items():
            if key not in ref:
                return failure("position_missing", "%s: result lies on a position %r that is not a grid pixel" % (name, key), representation=name)
            a = np.array(v); b = np.array(ref[key])
            if exact:
                if not np.array_equal(a, b):
                    return failure("representation_mismatch", "%s: value at %r differs from the grid value by %.3g (must be identical)" % (
                        name, key, np.abs(a - b).max()), representation=name, theory=tname)
            else:
                worst = max(worst, np.abs(a - b).max() / scale)
        if not exact:
            met[("direct_" if direct else "interp_") + name] = worst
            if not (worst <= rtol * TOLX):
                return failure("representation_mismatch", "%s: differs from the grid value by %.3g (rel)" % (name, worst), representation=name, theory=tname)
        return None

    # (ii) explicit point list in shuffled order
    rng = np.random.RandomState(case["seed"] % (2 ** 31))
    perm = rng.permutation(len(pts))
    npt = max(1, int(round(case["fshuf"] * len(pts))))
    sel = perm[:npt]
    if tname == "mielens" and False:
        pass
    dp = hp.detector_points(x=pts[sel, 0], y=pts[sel, 1], z=pts[sel, 2])
    f = compare(_calc(what, dp, s, th, o), "points")
    if f:
        return Outcome(f, True, labels)
    # (ii-b) the same grid with its axes stored in another order (an image transposed by the user, a hand-built
    # DataArray): positions are given by the coordinate labels, not by the order of the dimensions
    orders = [("z", "y", "x"), ("y", "x", "z"), ("x", "z", "y"), ("y", "z", "x")]
    dt = d.transpose(*orders[case["seed"] % len(orders)])
    f = compare(_calc(what, dt, s, th, o), "transposed_grid")
    if f:
        return Outcome(f, True, labels)
    # (ii-c) a grid whose coordinates are integer-typed (pixel spacing 1 or 100 in the user's unit: detector_grid(shape, 1)
    # gives int64 coordinates) against the same positions held as floats; the particle keeps a non-integer centre
    if case["seed"] % 3 == 0:
        oi, oj, zi = [int(v) for v in (round(det["origin"][0]), round(det["origin"][1]), round(det["z"]))]
        det_i = dict(det, spacing=[1.0 / unit, 1.0 / unit], origin=[oi / unit, oj / unit], z=zi / unit)
        s_i, th_i, _ = gen.build_scene(sc, o, det_i)
        d_f = gen.build_detector(det_i, unit)
        xi = np.round(d_f.x.values).astype(np.int64); yi = np.round(d_f.y.values).astype(np.int64); zi_ = np.round(d_f.z.values).astype(np.int64)
        d_float = d_f.assign_coords(x=xi.astype(float), y=yi.astype(float), z=zi_.astype(float))
        d_int = d_f.assign_coords(x=xi, y=yi, z=zi_)
        try:
            a_ = gen.flatten(_calc(what, d_float, s_i, th_i, o))[1]
            b_ = gen.flatten(_calc(what, d_int, s_i, th_i, o))[1]
        except Exception as e:
            if type(e).__name__ != "MultisphereFailure":
                raise
            a_ = b_ = None
        if a_ is not None:
            sc_ = max(np.abs(a_).max(), 1.0 if what == "holo" else 1e-300)
            e_ = np.abs(np.asarray(b_) - np.asarray(a_)).max() / sc_
            labels.append("integer_typed_grid")
            if not (e_ <= (0.0 if exact else rtol) * TOLX):
                return Outcome(failure("representation_mismatch", "integer-typed grid coordinates: values differ from those at the same positions held as floats by %.3g (rel)" % e_,
                                       representation="integer_typed_grid", theory=tname), True, labels)
    # (iii) crops: raw isel and subimage
    x0 = int(case["crop"][0] * (nx - 1)); x1 = x0 + 1 + int(case["crop"][1] * (nx - 1 - x0))
    y0 = int(case["crop"][2] * (ny - 1)); y1 = y0 + 1 + int(case["crop"][3] * (ny - 1 - y0))
    dc = d.isel(x=slice(x0, x1), y=slice(y0, y1))
    f = compare(_calc(what, dc, s, th, o), "isel_crop")
    if f:
        return Outcome(f, True, labels)
    if min(nx, ny) >= 2:
        size = 2 * max(1, int(case["crop"][1] * (min(nx, ny) // 2)))
        cx = size // 2 + int(case["crop"][0] * (nx - size)); cy = size // 2 + int(case["crop"][2] * (ny - size))
        ds = subimage(d, (cx, cy), size)
        if ds.sizes["x"] != size or ds.sizes["y"] != size:
            return Outcome(failure("subimage_shape", "subimage returned shape %r for size %d" % (dict(ds.sizes), size)), True, labels)
        f = compare(_calc(what, ds, s, th, o), "subimage")
        if f:
            return Outcome(f, True, labels)
        # commutation: crop of the computed image == image computed on the crop (by label)
        cs = subimage(full if what == "holo" else full.transpose("vector", "x", "y", "z").sel(vector="x"), (cx, cy), size) if what == "holo" else None
        if cs is not None:
            f = compare(cs, "subimage_of_result")
            if f:
                return Outcome(f, True, labels)
    # (iv) random pixel subset
    p = max(1, min(npix, int(round(case["fpix"] * npix))))
    seed = case["seed"] % (2 ** 31)
    sub = make_subset_data(d, pixels=p, seed=seed)
    rs = _calc(what, sub, s, th, o)
    f = compare(rs, "subset")
    if f:
        return Outcome(f, True, labels)
    if "flat" not in rs.dims or rs.sizes["flat"] != p:
        return Outcome(failure("subset_result_shape", "result on a subset has dims %r" % (rs.dims,)), True, labels)
    # commutation: subset of the full result (same seed) == result on the subset
    if what == "holo":
        sub_of_full = make_subset_data(full, pixels=p, seed=seed)
        a = _lookup(sub_of_full)[0]; b = _lookup(rs)[0]
        if set(a) != set(b):
            return Outcome(failure("subset_commutation", "the same seed selects different pixels on the detector and on the result"), True, labels)
        for key in a:
            if exact and a[key] != b[key]:
                return Outcome(failure("subset_commutation", "subset(calc_holo(img)) != calc_holo(subset(img)) at %r" % (key,), theory=tname), True, labels)
    nontrivial = (nx != ny or any(det["origin"])) and 1 < p < npix
    return Outcome(None, nontrivial, labels, metrics=met)


# ------------------------------------------------------------------------------------------ b
def strat_subset(tier):
    return st.fixed_dictionaries({
        "shape": st.tuples(st.integers(1, 12), st.integers(1, 12)).map(list),
        "spacing": st.tuples(gen.logu(0.01, 10.0), gen.logu(0.01, 10.0)).map(list),
        "origin": st.tuples(gen.rounded(-50, 50, 3), gen.rounded(-50, 50, 3)).map(list),
        "z": gen.rounded(-5, 5, 2),
        "fpix": st.floats(0, 1),
        "seeds": st.lists(st.integers(0, 2 ** 32 - 1), min_size=3, max_size=3, unique=True),
        "meta": st.booleans(),
        "name": st.sampled_from([None, "img", "a b"]),
        "channels": st.sampled_from([0, 0, 2, 3]),
    })


def run_subset(case):
    import holopy as hp
    import xarray as xr
    from holopy.core.metadata import make_subset_data, detector_grid, update_metadata, flat
    nx, ny = case["shape"]
    extra = {"illumination": ["r", "g", "b"][:case["channels"]]} if case["channels"] else None
    d = detector_grid((nx, ny), tuple(case["spacing"]), name=case["name"], extra_dims=extra)
    vals = (np.arange(d.size, dtype=float) * 0.37 + 0.1).reshape(d.shape)
    d = d.copy(data=vals)
    d = d.assign_coords(x=d.x.values + case["origin"][0], y=d.y.values + case["origin"][1], z=[case["z"]])
    if case["meta"]:
        d = update_metadata(d, medium_index=1.33, illum_wavelen=0.66, illum_polarization=(1, 0), noise_sd=0.05)
    npix = nx * ny
    p = max(1, min(npix, int(round(case["fpix"] * npix))))
    labels = ["channels_%d" % case["channels"], "p_eq_all" if p == npix else ("p1" if p == 1 else "p_mid")]
    fp0 = det_fingerprint(d)
    if make_subset_data(d, pixels=None) is not d and det_fingerprint(make_subset_data(d, pixels=None)) != fp0:
        return Outcome(failure("pixels_none", "pixels=None does not return the input"), True, labels)
    sels = []
    for sd in case["seeds"]:
        sub, sel = make_subset_data(d, pixels=p, return_selection=True, seed=sd)
        sub2, sel2 = make_subset_data(d, pixels=p, return_selection=True, seed=sd)
        if not np.array_equal(sel, sel2) or det_fingerprint(sub) != det_fingerprint(sub2):
            return Outcome(failure("subset_not_reproducible", "same seed gives different selections"), True, labels)
        if det_fingerprint(d) != fp0:
            return Outcome(failure("input_mutated", "make_subset_data modified its input"), True, labels)
        sel = np.asarray(sel)
        if len(sel) != p or len(set(sel.tolist())) != p or sel.min() < 0 or sel.max() >= npix:
            return Outcome(failure("subset_indices", "selection not %d distinct indices in range: %r" % (p, sel.tolist())), True, labels)
        # values / coordinates / metadata of the selected pixels equal the source's (by label)
        fl = flat(d)
        for j, idx in enumerate(sel.tolist()):
            src = fl.isel(flat=idx)
            got = sub.isel(flat=j)
            for cn in ("x", "y", "z"):
                if float(src[cn]) != float(got[cn]):
                    return Outcome(failure("subset_coordinates", "pixel %d: coordinate %s %r != source %r" % (j, cn, float(got[cn]), float(src[cn]))), True, labels)
            if not np.array_equal(np.asarray(src.values), np.asarray(got.values)):
                return Outcome(failure("subset_values", "pixel %d: value differs from source" % j), True, labels)
        if sub.name != d.name:
            return Outcome(failure("subset_name", "name %r != %r" % (sub.name, d.name)), True, labels)
        for k, v in d.attrs.items():
            sv = sub.attrs.get(k)
            same = (v is None and sv is None) or (isinstance(v, xr.DataArray) and isinstance(sv, xr.DataArray) and v.equals(sv)) or (
                not isinstance(v, xr.DataArray) and not isinstance(sv, xr.DataArray) and sv == v)
            if not same:
                return Outcome(failure("subset_metadata", "attr %s: %r != %r" % (k, sv, v)), True, labels)
        od = sub.attrs.get("original_dims")
        if od is None or set(od) != set(d.dims) or any(not np.array_equal(np.asarray(od[k]), d[k].values) for k in d.dims):
            return Outcome(failure("subset_original_dims", "original_dims does not reproduce the source axes: %r" % (od,)), True, labels)
        sels.append(tuple(sel.tolist()))
    if p >= 4 and npix >= 16 and p < npix and len(set(sels)) == 1:
        return Outcome(failure("subset_seed_ignored", "three different seeds give the same selection"), True, labels)
    return Outcome(None, 1 < p < npix, labels)


# ------------------------------------------------------------------------------------------ d
OPS = ["calc_holo", "calc_field", "calc_intensity", "calc_scat_matrix", "make_subset_data", "update_metadata", "flat", "subimage", "calc_cross_sections"]


def strat_purity(tier):
    return st.fixed_dictionaries({
        "base": gen.case_strategy(["sphere", "layered", "cluster_mie", "cluster_ms", "spheroid", "mielens"], max_side=6),
        "ops": st.lists(st.tuples(st.sampled_from(OPS), st.integers(0, 1000)).map(list), min_size=3, max_size=12 if tier == "quick" else 30),
        "detector_has_optics": st.booleans(),
    })


def _scat_fingerprint(s):
    from holopy.scattering.scatterer import Scatterers
    if isinstance(s, Scatterers):
        return tuple(_scat_fingerprint(m) for m in s.scatterers)
    return (type(s).__name__,) + tuple((k, repr(np.asarray(v).tolist())) for k, v in sorted(s._dict.items()))


def run_purity(case):
    import holopy as hp
    from holopy.scattering import calc_holo, calc_field, calc_intensity, calc_scat_matrix, calc_cross_sections
    from holopy.core.metadata import make_subset_data, update_metadata, flat
    from holopy.core.process import subimage
    base = case["base"]
    o, det, sc = base["o"], base["det"], base["sc"]
    unit = o["wl"] / o["nm"]
    d = gen.build_detector(det, unit)
    kw = gen.optics_kwargs(o)
    if case["detector_has_optics"]:
        d = update_metadata(d, noise_sd=0.1, **kw)
    s, th, info = gen.build_scene(sc, o, det)
    fd, fs = det_fingerprint(d), _scat_fingerprint(s)
    th_fp = repr(sorted(th._dict.items())) if hasattr(th, "_dict") else repr(th)
    first = {}
    ran = []
    for step, (op, arg) in enumerate(case["ops"]):
        try:
            if op == "calc_holo":
                r = calc_holo(d, s, theory=th, scaling=0.5 + (arg % 7) / 10.0, **kw)
            elif op == "calc_field":
                r = calc_field(d, s, theory=th, **kw)
            elif op == "calc_intensity":
                r = calc_intensity(d, s, theory=th, **kw)
            elif op == "calc_scat_matrix":
                if sc["th"]["t"] in ("mielens",) or (sc["th"]["t"] == "mie" and sc["kind"] == "cluster"):
                    continue
                r = calc_scat_matrix(d, s, o["nm"], o["wl"], theory=th)
            elif op == "calc_cross_sections":
                if not (sc["th"]["t"] == "mie" and sc["kind"] in ("sphere", "layered")):
                    continue
                r = calc_cross_sections(s, theory=th, **kw)
            elif op == "make_subset_data":
                if det["kind"] != "grid":
                    continue
                npix = det["shape"][0] * det["shape"][1]
                r = make_subset_data(d, pixels=1 + arg % npix, seed=arg)
            elif op == "update_metadata":
                r = update_metadata(d, illum_wavelen=0.5 + arg / 1000.0, illum_polarization=(0, 1))
            elif op == "flat":
                r = flat(d)
            else:
                if det["kind"] != "grid" or min(det["shape"]) < 2:
                    continue
                r = subimage(d, (1, 1), 2)
        except Exception as e:
            if type(e).__name__ == "MultisphereFailure":
                continue
            raise
        ran.append(op)
        if det_fingerprint(d) != fd:
            return Outcome(failure("detector_mutated", "step %d (%s) modified the detector object" % (step, op), op=op), True, ran)
        if _scat_fingerprint(s) != fs:
            return Outcome(failure("scatterer_mutated", "step %d (%s) modified the scatterer" % (step, op), op=op), True, ran)
        if (repr(sorted(th._dict.items())) if hasattr(th, "_dict") else repr(th)) != th_fp:
            return Outcome(failure("theory_mutated", "step %d (%s) modified the theory object" % (step, op), op=op), True, ran)
        key = (op, arg if op in ("calc_holo", "make_subset_data", "update_metadata") else 0)
        b = np.ascontiguousarray(r.values).tobytes()
        if key in first and first[key] != b:
            return Outcome(failure("result_depends_on_history", "step %d: %s gives different values than the first time" % (step, op), op=op), True, ran)
        first.setdefault(key, b)
    return Outcome(None, len(set(ran)) >= 3, ["ops_%d" % len(set(ran))])


def strat_points(tier):
    from .c05 import _scene
    opts = []
    for kd in ["sphere", "layered", "cluster_mie", "cluster_ms", "spheroid", "cylinder", "lens", "mielens"]:
        pol = st.just([1.0, 0.0]) if kd in ("spheroid", "cylinder") else None
        opts.append(st.fixed_dictionaries({"o": gen.optics(True, pol=pol), "det": gen.point_detector(8 if kd not in ("lens", "mielens") else 4), "sc": _scene(kd)}))
    return st.tuples(st.one_of(*opts), st.integers(0, 2 ** 31 - 1), st.sampled_from(["holo", "field", "intensity", "scat_matrix"])).map(
        lambda t: dict(t[0], seed=t[1], what=t[2]))


def run_points(case):
    """a value at a location does not depend on which other locations accompany it, nor on their order."""
    import holopy as hp
    from holopy.scattering import calc_holo, calc_field, calc_intensity, calc_scat_matrix
    o, det, sc = case["o"], case["det"], case["sc"]
    unit = o["wl"] / o["nm"]
    s, th, info = gen.build_scene(sc, o, det)
    P = gen.detector_points_xyz(det, unit)
    what = case["what"]
    if what == "scat_matrix" and sc["th"]["t"] == "mie" and sc["kind"] == "cluster":
        what = "field"
    kw = gen.optics_kwargs(o)
    labels = [gen.scene_label(sc), what, "z_varies" if len(set(P[:, 2].tolist())) > 1 else "z_const"]

    def calc(pts):
        d = hp.detector_points(x=pts[:, 0], y=pts[:, 1], z=pts[:, 2])
        if what == "holo":
            return calc_holo(d, s, theory=th, **kw).values
        if what == "field":
            return calc_field(d, s, theory=th, **kw).transpose("point", "vector").values
        if what == "intensity":
            return calc_intensity(d, s, theory=th, **kw).values
        return calc_scat_matrix(d, s, o["nm"], o["wl"], theory=th).transpose("point", "E_out", "E_in").values
    tkind = sc["th"]["t"]
    if tkind in ("lens", "mielens"):
        # keep the lens integrals cheap: points within a few wavelengths of the axis
        P = np.column_stack([P[:, 0] * 0.2, P[:, 1] * 0.2, P[:, 2]])
        if what == "scat_matrix":
            what = "field"
    zvar = len(set(P[:, 2].tolist())) > 1
    if tkind == "mielens" and zvar:
        # documented: MieLens refuses detector points that do not share one z (ValueError) - it must not answer silently
        try:
            calc(P)
        except ValueError as e:
            if "fixed" in str(e):
                return Outcome(None, False, labels + ["mielens_refuses_varying_z"], skipped=True)
            raise
        return Outcome(failure("mielens_accepts_varying_z", "MieLens returned values for points with different z although it assumes one z"), True, labels)
    try:
        full = calc(P)
        rng = np.random.RandomState(case["seed"] % (2 ** 31))
        perm = rng.permutation(len(P))
        shuffled = calc(P[perm])
        singles = np.array([calc(P[i:i + 1])[0] for i in range(len(P))])
    except Exception as e:
        if type(e).__name__ == "MultisphereFailure":
            return Outcome(None, False, labels + ["MultisphereFailure"], skipped=True)
        raise
    if tkind in ("lens", "mielens"):
        # quadrature sums over arrays of different length are not bit-identical; MieLens interpolates per call
        scale = max(np.abs(full).max(), 1e-300)
        rtol = 1e-6 if tkind == "mielens" else 1e-11
        e1 = np.abs(shuffled - full[perm]).max() / scale
        e2 = np.abs(singles - full).max() / scale
        if e1 > rtol:
            return Outcome(failure("depends_on_list_order", "%s values change by %.3g (rel) when the same points are listed in another order" % (tkind, e1), what=what), True, labels)
        if e2 > rtol:
            return Outcome(failure("depends_on_other_points", "%s: a point evaluated alone differs by %.3g (rel) from its value inside the list" % (tkind, e2), what=what), True, labels)
        return Outcome(None, len(P) >= 2 and zvar, labels)
    if not np.array_equal(shuffled, full[perm]):
        return Outcome(failure("depends_on_list_order", "values change by %.3g when the same points are listed in another order" % np.abs(shuffled - full[perm]).max(),
                               what=what), True, labels)
    if not np.array_equal(singles, full):
        return Outcome(failure("depends_on_other_points", "a point evaluated alone differs by %.3g from its value inside the list" % np.abs(singles - full).max(),
                               what=what), True, labels)
    return Outcome(None, len(P) >= 2 and len(set(P[:, 2].tolist())) > 1, labels)


SUBCHECKS = [
    Sub("point_lists_any_z_any_order", strat_points, run_points, 1200, 20000,
        "1-8 explicit detector points with individually drawn z (not a plane) for Mie/layered/Mie superposition/"
        "Multisphere/Tmatrix; hologram, field, intensity or scattering matrix: the list evaluated in a shuffled order and "
        "every point evaluated alone give bit-identical values; non-trivial = >=2 points with differing z",
        tolerances={"equality": "bitwise"}),
    Sub("representations_agree", strat_repr, run_repr, 1600, 30000,
        "grid (1..9 per side incl. 1xN, odd, anisotropic, shifted origin, z!=0) vs the same positions as a shuffled "
        "point list, an isel crop, a subimage crop, the crop of the result, and a random pixel subset (1..all, seeded) "
        "for Mie/layered/Mie superposition/Multisphere/Tmatrix/MieLens (interpolated and direct); bit-equality for "
        "pointwise theories; subset(calc_holo(img)) == calc_holo(subset(img)); non-trivial = non-square or shifted grid "
        "and subset strictly between 1 and all pixels",
        tolerances={"pointwise_theories": "bitwise", "mielens_interpolated_rel": 1e-6, "mielens_direct_rel": 1e-12}),
    Sub("subset_selection", strat_subset, run_subset, 4000, 80000,
        "images 1..12 per side (anisotropic spacing, shifted origin, z, 0/2/3 channels, with/without metadata): p from "
        "1 to all pixels, 3 seeds: distinct in-range indices, reproducible per seed, values/coords/name/attrs of "
        "selected pixels equal the source's, original_dims equals source axes, input unchanged, pixels=None is identity",
        tolerances={}),
    Sub("purity_under_call_sequences", strat_purity, run_purity, 480, 8000,
        "one detector, scatterer and theory object shared by a generated sequence of 3-12 (thorough 30) operations "
        "from {calc_holo, calc_field, calc_intensity, calc_scat_matrix, calc_cross_sections, make_subset_data, "
        "update_metadata, flat, subimage}: fingerprints of all inputs unchanged after every step and repeated calls "
        "return identical bytes; non-trivial = >=3 distinct operations executed",
        tolerances={"equality": "bitwise"}),
]
