"""C02 — independent solvers agree on the field scattered by a single sphere; layered reductions."""
import math

import numpy as np
from hypothesis import strategies as st

from ..runner import Sub, Outcome, failure, TOLX
from .. import gen
from ..oracles import refmie

PROPERTY = "C02"
from ..build_ext import parsed_limits
LIMITS = parsed_limits()
ASSUMPTIONS = [
    "reference = textbook BHMIE (log-derivative recurrence) + B&H eq. 4.45 near field built on scipy spherical "
    "Bessel functions of real argument; cross-checked against the direct B&H 4.53 formula to 1e-12",
    "HoloPy's asymptotic-radial option applies to the transverse components only (the radial component always "
    "uses the full Hankel function); the reference mirrors this documented structure",
    "Multisphere single-sphere expansions are truncated at the compiled nod; the generator keeps x inside it",
]


TOL_FIELD = 1e-6
TOL_SERIES = 1e-7


def size_class(x):
    if x < 0.1:
        return "rayleigh"
    if x < 3:
        return "small"
    if x < 50:
        return "resonance"
    return "large"


# ------------------------------------------------------------------------------------------
# a. Fortran Mie vs textbook
# ------------------------------------------------------------------------------------------
def strat_mie(tier):
    xhi = 500.0 if tier == "quick" else 900.0
    return st.fixed_dictionaries({
        "o": gen.optics(),
        "s": gen.sphere_dimless(1e-3, xhi),
        "det": gen.point_detector(8),
        "pl": st.fixed_dictionaries({"fx": gen.rounded(-0.3, 1.3, 4), "fy": gen.rounded(-0.3, 1.3, 4),
                                     "kgap": gen.logu(0.02, 3e3)}),
        "radial": st.booleans(), "full": st.booleans(), "warm": gen.warm_strategy(),
        # aim one detector point at a distance k r equal to a zero of a low-order spherical Bessel function
        # (j_0: n pi; j_1: roots of tan x = x), where implementations that normalise a recurrence by j_0 or j_1
        # have to switch branches
        "kr_target": st.one_of(st.none(), st.none(), st.tuples(st.sampled_from(_BESSEL_ZEROS), st.floats(0.05, 1.5), st.floats(0, 6.283)).map(list)),
    })


_BESSEL_ZEROS = [3.141592653589793, 6.283185307179586, 9.42477796076938, 12.566370614359172, 15.707963267948966,
                 4.493409457909064, 7.725251836937707, 10.904121659428899, 14.066193912831473, 17.220755271930768,
                 20.371302959287563, 23.519452498689007]


def _mi_ok(s):
    # keep |Im(m x)| where every formulation is finite (documented: absorbing spheres supported)
    return s["m"][1] * s["x"] <= 600.0


def run_mie(case):
    from holopy.scattering import calc_field, calc_scat_matrix, Mie
    o, s = case["o"], case["s"]
    k = gen.wavevec(o)
    unit = o["wl"] / o["nm"]
    radius = s["x"] / k
    center = gen.place(case["pl"], case["det"], unit, radius, k)
    det = gen.build_detector(case["det"], unit)
    kt = case.get("kr_target")
    if kt is not None and kt[0] > 1.05 * s["x"]:
        # move the sphere so that the first detector point lies at distance kr* from its centre, in direction (th, ph)
        p0 = gen.detector_points_xyz(case["det"], unit)[0]
        rr = kt[0] / k
        center = [float(p0[0] + rr * math.sin(kt[1]) * math.cos(kt[2])), float(p0[1] + rr * math.sin(kt[1]) * math.sin(kt[2])),
                  float(p0[2] + rr * math.cos(kt[1]))]
        case = dict(case, det={"kind": "points", "pts": [case["det"]["pts"][0]]})
        det = gen.build_detector(case["det"], unit)
    sph = gen.make_sphere(s, o, center)
    theory = Mie(compute_escat_radial=case["radial"], full_radial_dependence=case["full"])
    gen.warm_up(theory, sph, o, case.get("warm"))
    res = calc_field(det, sph, theory=theory, **gen.optics_kwargs(o))
    pts, got = gen.flatten(res, gen.detector_points_xyz(case["det"], unit))
    args = (complex(*s["m"]) * o["nm"], radius, center, pts, o["nm"], o["wl"], o["pol"])
    want = refmie.holopy_field(*args, full_radial=case["full"], radial_component=case["radial"])
    # the same series stopped at the textbook (Wiscombe) order: their difference is the truncation
    # uncertainty of "the Mie series" at these points (large just outside big spheres)
    want_w = refmie.holopy_field(*args, full_radial=case["full"], radial_component=case["radial"],
                                 nmax=refmie.wiscombe(s["x"]))
    labels = [size_class(s["x"]), "absorbing" if s["m"][1] else "real",
              "radial" if case["radial"] else "noradial", "full" if case["full"] else "asymptotic",
              "near" if case["pl"]["kgap"] < 3 else "far"]
    if kt is not None and kt[0] > 1.05 * s["x"]:
        labels.append("kr_at_bessel_zero")
    if not (np.all(np.isfinite(want)) and np.all(np.isfinite(want_w))):
        return Outcome(None, False, labels + ["reference_nonfinite"], skipped=True)
    if not np.all(np.isfinite(got)):
        return Outcome(failure("nonfinite", "Mie field not finite", size=size_class(s["x"])), True, labels)
    scale = np.abs(want).max()
    trunc = np.abs(want - want_w).max()
    err = np.abs(got - want).max()
    # magnitude of the un-cancelled series (|S(0)| bound) over kr: the natural scale of summation roundoff
    a_, b_ = refmie.mie_ab(complex(*s["m"]), s["x"])
    n_ = np.arange(1, len(a_) + 1)
    smag = 0.5 * np.sum((2 * n_ + 1) * (np.abs(a_) + np.abs(b_)))
    krmin = k * np.sqrt(((pts - np.array(center)) ** 2).sum(1)).min()
    sermag = smag / krmin
    tol = (TOL_FIELD * scale + 3.0 * trunc + TOL_SERIES * sermag) * TOLX
    tol_round = (TOL_FIELD * scale + TOL_SERIES * sermag) * TOLX
    err_w = np.abs(got - want_w).max()
    met = {"field_err_over_tol": err / tol * TOLX, "field_rel": err / scale, "trunc_rel": trunc / scale,
           "roundoff_vs_same_truncation_over_tol": err_w / tol_round * TOLX}
    # pass if it matches the series at the textbook truncation order to roundoff, or the converged
    # series within three truncation uncertainties (any other sensible truncation order)
    if err_w > tol_round and err > tol:
        comp = int(np.argmax(np.abs(got - want).max(axis=0)))
        return Outcome(failure("mie_vs_textbook_field", "rel err %.3g (scale %.3g, truncation uncertainty %.3g) component %d"
                               % (err / scale, scale, trunc / scale, comp),
                               radial=case["radial"], full=case["full"]), True, labels)
    # scattering matrix at the same points
    sm = calc_scat_matrix(det, sph, o["nm"], o["wl"], theory=theory)
    dx = pts[:, 0] - center[0]; dy = pts[:, 1] - center[1]; dz = center[2] - pts[:, 2]
    theta = np.arctan2(np.hypot(dx, dy), dz)
    S1, S2 = refmie.S1S2(complex(*s["m"]), s["x"], theta)
    smv = sm.transpose("point", "E_out", "E_in").values
    sscale = max(np.abs(S1).max(), np.abs(S2).max())
    if np.abs(smv[:, 0, 1]).max() != 0 or np.abs(smv[:, 1, 0]).max() != 0:
        return Outcome(failure("scat_matrix_offdiag", "off-diagonal S3/S4 not exactly 0 for a sphere"), True, labels)
    e2 = max(np.abs(smv[:, 0, 0] - S2).max(), np.abs(smv[:, 1, 1] - S1).max())
    met["scatmatrix_rel"] = e2 / sscale
    if not (e2 <= 3e-5 * TOLX * sscale):
        return Outcome(failure("mie_vs_textbook_scatmatrix", "rel err %.3g" % (e2 / sscale)), True, labels)
    nontrivial = abs(complex(*s["m"]) - 1) > 0.02 and scale > 0
    return Outcome(None, nontrivial, labels, metrics=met)


# ------------------------------------------------------------------------------------------
# b. pure-Python Mie series (lens theories) vs textbook
# ------------------------------------------------------------------------------------------
def strat_py(tier):
    return st.fixed_dictionaries({
        "s": gen.sphere_dimless(0.05, 200.0 if tier == "quick" else 400.0).map(lambda s: dict(s, m=[s["m"][0], min(s["m"][1], 200.0 / s["x"])])),
        "theta": st.lists(st.floats(0.0, math.pi), min_size=1, max_size=6),
    })


def run_py(case):
    from holopy.scattering.theory.mielensfunctions import MieScatteringMatrix
    s = case["s"]
    m = complex(*s["m"]) if s["m"][1] else s["m"][0]
    theta = np.array(case["theta"])
    labels = [size_class(s["x"]), "absorbing" if s["m"][1] else "real"]
    # the series is written in van de Hulst's exp(+i w t) convention: the lens theories hand it the
    # conjugate index (n - ik for an absorbing sphere) and its output is the conjugate of B&H's
    mc = np.conj(m)
    try:
        perp = MieScatteringMatrix("perpendicular", index_ratio=mc, size_parameter=s["x"])(theta)
        par = MieScatteringMatrix("parallel", index_ratio=mc, size_parameter=s["x"])(theta)
    except RuntimeError as e:
        if "nan" in str(e):     # documented outcome of the naive series
            return Outcome(None, False, labels + ["documented_nan_error"], skipped=True)
        raise
    S1, S2 = refmie.S1S2(m, s["x"], theta)
    scale = max(np.abs(S1).max(), np.abs(S2).max())
    # van de Hulst (exp(+i w t)) <-> Bohren & Huffman: complex conjugation for real m
    e = max(np.abs(perp - np.conj(S1)).max(), np.abs(par - np.conj(S2)).max())
    if not (e <= 1e-5 * TOLX * scale):
        return Outcome(failure("python_series_vs_textbook", "rel err %.3g at x=%.4g m=%r" % (e / scale, s["x"], m),
                               size=size_class(s["x"])), True, labels)
    return Outcome(None, abs(m - 1) > 0.02, labels, metrics={"rel": e / scale})


# ------------------------------------------------------------------------------------------
# c. Multisphere one-sphere cluster vs Mie
# ------------------------------------------------------------------------------------------
def strat_ms(tier):
    return st.fixed_dictionaries({
        "o": gen.optics(),
        # log-uniform sizes, and a share of dense or hollow spheres of x = 6..25 (where single multipoles can be dark - a
        # coefficient crossing zero - well below the order at which the series has converged; x up to nod - 4 x^(1/3))
        "s": st.one_of(gen.sphere_dimless(0.05, 16.0, mlo=0.6, mhi=2.2), gen.sphere_dimless(0.05, 16.0, mlo=0.6, mhi=2.2),
                       st.fixed_dictionaries({"x": st.floats(6.0, 21.0), "m": st.tuples(st.one_of(st.floats(1.6, 2.6), st.floats(0.6, 0.8)), st.just(0.0)).map(list)})),
        "det": gen.point_detector(6),
        "pl": st.fixed_dictionaries({"fx": gen.rounded(-0.3, 1.3, 4), "fy": gen.rounded(-0.3, 1.3, 4),
                                     "kgap": gen.logu(0.5, 1e3)}),
        "tight": st.booleans(), "radial": st.booleans(), "meth": st.sampled_from([0, 1]),
        "wrap": st.booleans(), "warm": gen.warm_strategy(),
        # size parameter at (or within a few ulp of) a zero of a Riccati-Bessel function psi_0..psi_3: "nice" user
        # numbers land there (r=0.4, n_m=1.33, wavelength 0.532 is x = 2 pi exactly)
        "x_zero": st.one_of(st.none(), st.none(), st.tuples(st.sampled_from(_PSI_ZEROS), st.sampled_from([0.0, 0.0, 2e-16, -2e-16, 1e-12, -1e-9]), st.sampled_from(["x", "x", "mx"])).map(list)),
    })


_PSI_ZEROS = [math.pi, 2 * math.pi, 3 * math.pi, 4 * math.pi, 5 * math.pi, 4.493409457909064, 7.725251836937707, 10.904121659428899,
              14.066193912831473, 5.763459196894550, 9.095011330476355, 12.322940970566582, 6.987932000500519, 10.417118547379365]


def run_ms(case):
    from holopy.scattering import calc_field, calc_scat_matrix, Mie, Multisphere, Spheres
    o, s = case["o"], case["s"]
    xz = case.get("x_zero")
    if xz is not None:
        if len(xz) > 2 and xz[2] == "mx":
            # the argument inside the sphere, m x, at the zero (real index)
            s = dict(s, m=[s["m"][0], 0.0], x=xz[0] * (1.0 + xz[1]) / s["m"][0])
        else:
            s = dict(s, x=xz[0] * (1.0 + xz[1]))
    if s["m"][1] * s["x"] > 30:
        s = dict(s); s["m"] = [s["m"][0], round(30.0 / s["x"], 7)]
    k = gen.wavevec(o)
    unit = o["wl"] / o["nm"]
    radius = s["x"] / k
    pl_ = case["pl"]
    if s["x"] >= 6.0 and not 0.8 < s["m"][0] < 1.6 and pl_["kgap"] < 40.0:
        # dense and hollow spheres of this size are looked at from k*gap >= 40: next to the surface the orders that the
        # extinction-based stopping rule drops weigh more than in the far field, which D does not model
        pl_ = dict(pl_, kgap=40.0 + pl_["kgap"])
    center = gen.place(pl_, case["det"], unit, radius, k)
    det = gen.build_detector(case["det"], unit)
    sph = gen.make_sphere(s, o, center)
    kw = dict(qeps1=1e-9, qeps2=1e-12) if case["tight"] else {}
    ms = Multisphere(meth=case["meth"], compute_escat_radial=case["radial"], **kw)
    mie = Mie(compute_escat_radial=case["radial"])
    scat = Spheres([sph]) if case["wrap"] else sph
    labels = [size_class(s["x"]), "tight" if case["tight"] else "default_opts", "radial" if case["radial"] else "noradial",
              "meth%d" % case["meth"], "absorbing" if s["m"][1] else "real"]
    if xz is not None:
        labels.append("x_at_zero_of_psi")
    gen.warm_up(ms, scat, o, case.get("warm"))
    if case.get("warm"):
        labels.append("theory_used_before")
    a = calc_field(det, scat, theory=ms, **gen.optics_kwargs(o))
    b = calc_field(det, sph, theory=mie, **gen.optics_kwargs(o))
    _, av = gen.flatten(a)
    _, bv = gen.flatten(b)
    pts_ = gen.detector_points_xyz(case["det"], unit)
    krmin = k * np.sqrt(((pts_ - np.array(center)) ** 2).sum(1)).min()
    # SCSMFO's stopping rule for the single-sphere expansion: orders whose Q_ext term is relatively below qeps1
    # are dropped from the end of the series.  D = share of Q_ext carried by the orders that rule drops
    # (evaluated with the reference coefficients); a narrow resonance beyond the stopping order makes
    # D large and the default-option result is then only as accurate as the documented rule allows.
    a_, b_ = refmie.mie_ab(complex(*s["m"]), s["x"])
    n_ = np.arange(1, len(a_) + 1)
    tn = (2 * n_ + 1) * (a_ + b_).real
    cs = np.cumsum(tn)
    q1 = 1e-9 if case["tight"] else 1e-5
    nmaxs = min(int(round(s["x"] + 4 * s["x"] ** (1 / 3))) + 5, LIMITS["nod"])
    # the series is cut one order after its last significant term (an isolated small term below that - a multipole
    # that happens to be dark at this size - is not the tail; until repo commit "Multisphere cuts the single-sphere
    # series after its last significant term" the first small term ended it, with errors of up to 50 %)
    ns = 1
    for i in range(min(nmaxs, len(tn))):
        if abs(tn[i]) / abs(cs[i]) >= q1:
            ns = i + 1
    ns = min(ns + 1, nmaxs)
    D = float(np.abs(tn[ns:]).sum() / abs(cs[-1]))
    # truncation errors are relative to the un-cancelled series magnitude, not to the (possibly tiny)
    # large-angle field at the sampled points
    sermag = 0.5 * np.sum((2 * n_ + 1) * (np.abs(a_) + np.abs(b_))) / krmin
    scale = max(np.abs(bv).max(), 0.1 * sermag)
    tol = ((5e-3 + 10 * math.sqrt(D)) if case["tight"] else (5e-2 + 30 * math.sqrt(D))) * TOLX
    err = np.abs(av - bv).max()
    met = {"field_err_over_tol_tight" if case["tight"] else "field_err_over_tol_default": err / scale / tol * TOLX}
    if D > 1e-4:
        labels.append("resonance_hidden_by_documented_truncation")
    if not np.isfinite(err) or err > tol * scale:
        return Outcome(failure("multisphere_vs_mie_field", "rel err %.3g (tol %.2e, dropped-order share D=%.2e) x=%.4g" % (err / scale, tol, D, s["x"]),
                               tight=case["tight"], radial=case["radial"]), True, labels)
    sa = calc_scat_matrix(det, scat, o["nm"], o["wl"], theory=ms).transpose("point", "E_out", "E_in").values
    sb = calc_scat_matrix(det, sph, o["nm"], o["wl"], theory=mie).transpose("point", "E_out", "E_in").values
    sscale = np.abs(sb).max()
    e2 = np.abs(sa - sb).max()
    if not np.isfinite(e2) or e2 > tol * sscale:
        return Outcome(failure("multisphere_vs_mie_scatmatrix", "rel err %.3g (tol %.0e)" % (e2 / sscale, tol),
                               tight=case["tight"]), True, labels)
    met["scatmatrix_err_over_tol_tight" if case["tight"] else "scatmatrix_err_over_tol_default"] = e2 / sscale / tol * TOLX
    return Outcome(None, abs(complex(*s["m"]) - 1) > 0.02, labels, metrics=met)


# ------------------------------------------------------------------------------------------
# d. layered-sphere reductions (Yang recursion vs single-layer code)
# ------------------------------------------------------------------------------------------
def strat_layer(tier):
    xhi = 200.0 if tier == "quick" else 900.0
    return st.fixed_dictionaries({
        "o": gen.optics(),
        "x": gen.size_param(1e-2, xhi),
        "fr": st.lists(st.floats(0.05, 1.0), min_size=1, max_size=4),   # layer fractions (cumulative built below)
        "m": st.lists(gen.rel_index(), min_size=1, max_size=4),
        "mode": st.sampled_from(["same_index", "merge_adjacent", "outer_is_medium", "thickness_vs_radius"]),
        "det": gen.point_detector(5),
        "pl": st.fixed_dictionaries({"fx": gen.rounded(-0.3, 1.3, 4), "fy": gen.rounded(-0.3, 1.3, 4),
                                     "kgap": gen.logu(0.05, 1e3)}),
        "dup": st.integers(0, 3),
        # same_index mode only: a large, strongly absorbing sphere, Im(m x) in [250, 2500] (sin and exp of the layer
        # arguments overflow double precision above ~709)
        "strong": st.one_of(st.none(), st.none(), st.none(), st.none(), st.none(), st.none(), st.none(),
                            st.fixed_dictionaries({"x": st.floats(120.0, 900.0), "imx": gen.logu(250.0, 2500.0)})),
    })


def _zero_proximity(z):
    """min over 1 <= n <= |z| of |psi_n(z)| / |xi_n(z)|: how close z is to a zero of a Riccati-Bessel function."""
    from scipy.special import spherical_jn, spherical_yn
    z = complex(z)
    if abs(z) < 1.0:
        return 1.0
    n = np.arange(1, int(abs(z)) + 1)
    zz = z.real if z.imag == 0 else z
    j = spherical_jn(n, zz); y = spherical_yn(n, zz)
    with np.errstate(all="ignore"):
        q = np.abs(j) / np.sqrt(np.abs(j) ** 2 + np.abs(y) ** 2)
    q = q[np.isfinite(q)]
    return float(q.min()) if len(q) else 1.0


def run_layer(case, _probe=None):
    """_probe = j: evaluate the same pair with the size parameter moved by j ulp and return the raw values."""
    from holopy.scattering import calc_field, calc_scat_matrix, Mie, Sphere, LayeredSphere
    strong = case.get("strong") if case["mode"] == "same_index" else None
    if strong:
        case = dict(case, x=strong["x"], m=[[case["m"][0][0], strong["imx"] / strong["x"]]] + list(case["m"][1:]))
    if _probe is not None:
        case = dict(case, x=case["x"] * (1 + _probe * 2.0 ** -52))
    o = case["o"]
    k = gen.wavevec(o)
    unit = o["wl"] / o["nm"]
    nl = min(len(case["fr"]), len(case["m"])) if case["mode"] != "same_index" else len(case["fr"])
    fr = np.cumsum(case["fr"][:nl]); fr = fr / fr[-1]
    radii = [float(f * case["x"] / k) for f in fr]
    # strictly increasing radii needed
    if any(b <= a for a, b in zip(radii[:-1], radii[1:])):
        return Outcome(None, False, ["degenerate_radii"], skipped=True)
    ms = [complex(*m) for m in case["m"]]
    if not strong:
        ms = [m if m.imag * case["x"] <= 200 else complex(m.real, 200.0 / case["x"]) for m in ms]
    ns = [(m if m.imag else m.real) * o["nm"] for m in ms]
    R = radii[-1]
    center = gen.place(case["pl"], case["det"], unit, R, k)
    det = gen.build_detector(case["det"], unit)
    mode = case["mode"]
    labels = [mode, "layers_%d" % nl, size_class(case["x"]), "absorbing" if any(m.imag for m in ms) else "real"]
    if strong:
        labels.append("strongly_absorbing_Im_mx_over_709" if ms[0].imag * case["x"] > 709 else "strongly_absorbing")
    if mode == "same_index":
        A = Sphere(n=[ns[0]] * nl, r=radii, center=center)
        B = Sphere(n=ns[0], r=R, center=center)
        if nl == 1:
            A = Sphere(n=[ns[0]], r=[R], center=center)
    elif mode == "merge_adjacent":
        ns = ns[:nl]
        j = case["dup"] % nl
        n2 = ns[:j + 1] + [ns[j]] + ns[j + 1:]
        rin = radii[j - 1] if j > 0 else 0.0
        r2 = radii[:j] + [0.5 * (rin + radii[j])] + radii[j:]
        A = Sphere(n=n2, r=r2, center=center)
        B = Sphere(n=ns if nl > 1 else ns[0], r=radii if nl > 1 else R, center=center)
    elif mode == "outer_is_medium":
        ns = ns[:nl]
        rout = R * 1.3
        if 1.3 * case["x"] >= 995.0:
            # Mie refuses size parameters above 1000 (documented InvalidScatterer): keep the shell inside
            if case["x"] >= 990.0:
                return Outcome(None, False, ["beyond_documented_size_limit"], skipped=True)
            rout = R * 995.0 / case["x"]
        if nl > 1:
            # the two objects are summed to different orders (Wiscombe order of x vs 1.3 x).  For one layer the
            # difference is modelled below with the textbook series; for several layers the detector is kept
            # beyond k r = 2 N(1.3 x), where no retained order is still growing, and the tolerance gets the
            # Wiscombe tail (terms beyond the textbook order are < 1e-7 of the leading ones)
            center = gen.place(dict(case["pl"], kgap=max(case["pl"]["kgap"], 2.0 * refmie.wiscombe(1.3 * case["x"]))), case["det"], unit, R, k)
        if center[2] - rout <= gen.detector_xy_extent(case["det"], unit)[4]:
            center = [center[0], center[1], center[2] + 0.3 * R]
        A = Sphere(n=ns + [o["nm"]], r=radii + [rout], center=center)
        B = Sphere(n=ns if nl > 1 else ns[0], r=radii if nl > 1 else R, center=center)
    else:
        ns = ns[:nl]
        t = [radii[0]] + [b - a for a, b in zip(radii[:-1], radii[1:])]
        A = LayeredSphere(n=ns, t=t, center=center)
        B = Sphere(n=ns, r=list(np.cumsum(t)), center=center)
    kw = gen.optics_kwargs(o)
    # Distance of every layer-interface argument m_l x from a zero of a Riccati-Bessel function psi_n, n <= |z|
    # (as |psi_n| / |xi_n|).  Yang's recursion divides by such values: the layered coefficients lose digits in
    # proportion to 1/p (measured: error <= 3e5 eps / p over 80000 spheres, <= 1e-10 for p >= 1e-3).
    pz = 1.0
    for obj in (A, B):
        if np.ndim(obj.r) == 0:
            continue
        rr = [float(v) for v in np.atleast_1d(obj.r)]
        nn = [complex(v) / o["nm"] for v in np.atleast_1d(obj.n)]
        for l in range(1, len(rr)):
            for z in (nn[l] * k * rr[l - 1], nn[l] * k * rr[l]):
                pz = min(pz, _zero_proximity(z))
    near_zero = pz < 1e-3
    if near_zero:
        labels.append("near_riccati_bessel_zero")
    # roundoff floor of the recursion: 1e-9, plus the Rayleigh-regime cancellation of Yang's recursion, whose
    # relative error grows like eps / x_core^3 (measured <= 450 eps / x^3 down to x = 0.01)
    x_in = float(k * min(np.min(np.atleast_1d(A.r)), np.min(np.atleast_1d(B.r))))
    TOL_L = 1e-9 + 1e4 * 2.0 ** -52 / min(1.0, x_in) ** 3
    # the 1/p law is continuous (constant up to 1.2e6 for high-index layers); down to p = 1e-3 (error <= 2e-6) it is treated as this algorithm's roundoff,
    # closer to a zero as the known finding
    TOL_L += 1e7 * 2.0 ** -52 / max(pz, 1e-3)
    if mode == "outer_is_medium" and nl > 1:
        TOL_L += 3e-7
    fa = gen.flatten(calc_field(det, A, theory=Mie(), **kw))[1]
    fb = gen.flatten(calc_field(det, B, theory=Mie(), **kw))[1]
    if _probe is not None:
        return (fa, fb, calc_scat_matrix(det, A, o["nm"], o["wl"], theory=Mie()).values,
                calc_scat_matrix(det, B, o["nm"], o["wl"], theory=Mie()).values)

    def verdict(cls, err_rel, what):
        """err_rel exceeded the roundoff tolerance: decide between the three explanations."""
        eps = 2.0 ** -52
        if near_zero and err_rel <= 1e8 * eps / pz:
            # the known loss of digits next to a zero of psi_n (known_findings.json), inside its measured law
            return Outcome(failure(cls, "%s: rel err %.3g x=%.4g layers=%d; a layer argument m_l x lies %.2g from a zero of psi_n"
                                   % (mode, err_rel, case["x"], nl, pz), mode=mode, near_riccati_bessel_zero=True), True, labels)
        # conditioning of the problem itself (narrow resonances of large high-index spheres): response of both
        # objects to a +-1, 3 ulp change of the size parameter
        noise = 0.0
        for j in (1, -1, 3):
            pa, pb, psa, psb = run_layer(case, _probe=j)
            if what == "field":
                noise = max(noise, np.abs(pa - fa).max() / scale, np.abs(pb - fb).max() / scale)
            else:
                noise = max(noise, np.abs(psa - sa).max() / np.abs(sb).max(), np.abs(psb - sb).max() / np.abs(sb).max())
        if not near_zero and err_rel <= 30 * noise:
            return None
        return Outcome(failure(cls, "%s: rel err %.3g x=%.4g layers=%d (response to one ulp of x: %.3g; distance from a zero of psi_n: %.2g)"
                               % (mode, err_rel, case["x"], nl, noise, pz), mode=mode, near_riccati_bessel_zero=False), True, labels)

    if not (np.all(np.isfinite(fa)) and np.all(np.isfinite(fb))):
        return Outcome(failure("nonfinite", "layered field not finite", mode=mode), True, labels)
    scale = np.abs(fb).max()
    err = np.abs(fa - fb).max()
    trunc = 0.0
    if mode == "outer_is_medium" and nl == 1:
        pts = gen.flatten(calc_field(det, B, theory=Mie(), **kw), gen.detector_points_xyz(case["det"], unit))[0]
        args = (ms[0] * o["nm"], R, center, pts, o["nm"], o["wl"], o["pol"])
        trunc = np.abs(refmie.holopy_field(*args) - refmie.holopy_field(*args, nmax=refmie.wiscombe(case["x"]))).max()
        if not np.isfinite(trunc):
            return Outcome(None, False, labels + ["reference_nonfinite"], skipped=True)
    ill = False
    if not (err <= (TOL_L * scale + 3.0 * trunc) * TOLX):
        out = verdict("layered_reduction_field", (err - 3.0 * trunc) / scale, "field")
        if out is not None:
            return out
        ill = True
    sa = calc_scat_matrix(det, A, o["nm"], o["wl"], theory=Mie()).values
    sb = calc_scat_matrix(det, B, o["nm"], o["wl"], theory=Mie()).values
    e2 = np.abs(sa - sb).max() / np.abs(sb).max()
    if not np.isfinite(e2):
        return Outcome(failure("nonfinite", "layered scattering matrix not finite", mode=mode), True, labels)
    # the two objects are summed to different Wiscombe orders (outer x of the shell vs x of the bare sphere): the share of
    # the orders in between, estimated from the textbook series at the detector points (trunc, above), applies to the
    # far-field amplitudes as well
    trunc_rel = 3.0 * trunc / scale if scale > 0 else 0.0
    if not (e2 <= (TOL_L + trunc_rel) * TOLX):
        out = verdict("layered_reduction_scatmatrix", max(e2 - trunc_rel, 0.0), "scatmatrix")
        if out is not None:
            return out
        ill = True
    if ill:
        labels.append("ill_conditioned_to_one_ulp")
    nontrivial = abs(ms[0] - 1) > 0.02 and (nl > 1 or mode != "thickness_vs_radius")
    return Outcome(None, nontrivial, labels, metrics={} if (near_zero or ill) else {"field_rel_" + mode: err / scale, "scatmatrix_rel_" + mode: e2})


SUBCHECKS = [
    Sub("mie_vs_textbook", strat_mie, run_mie, 8000, 120000,
        "x log-uniform [1e-3,500] (thorough 900), m_r in [0.5,2.5] excluding (0.98,1.02), m_i 0 or log-uniform "
        "[1e-4,3] (cases with m_i*x > 600 count as trivial), 1-8 points at gaps k*d in [0.02,3000] from the surface, "
        "random polarization angle, all 4 option combinations; non-trivial = |m-1| > 0.02 and non-zero reference field",
        tolerances={"field": "1e-6*max|ref| + 3*|ref(Wiscombe order) - ref(Wiscombe+15)| + 1e-7*(sum (2n+1)(|a_n|+|b_n|)/2)/kr_min", "scat_matrix_rel": 3e-5}),
    Sub("python_series", strat_py, run_py, 4000, 60000,
        "MieScatteringMatrix (parallel & perpendicular) at 1-6 polar angles in [0,pi], real and absorbing m (passed as the conjugate, as the lens theories do), x in [0.05,200] "
        "(thorough 400); documented RuntimeError('nan') counted as skipped; non-trivial = |m-1|>0.02",
        tolerances={"rel_to_max": 1e-5}),
    Sub("multisphere_one_sphere", strat_ms, run_ms, 5000, 80000,
        "one-sphere cluster (bare Sphere or Spheres([s])) x in [0.05,16] (within compiled nod), default and tight "
        "(qeps1=1e-9,qeps2=1e-12) options, both interaction solvers, radial on/off; field and scattering matrix vs Mie",
        tolerances={"default_rel": "5e-2 + 30*sqrt(D) (weak: SCSMFO default qeps1=1e-5 truncation; observed max 1.4e-2)", "tight_rel": "5e-3 + 10*sqrt(D)", "D": "share of Q_ext in the orders dropped by SCSMFO's documented qeps1 stopping rule, from reference coefficients"}),
    Sub("layered_reductions", strat_layer, run_layer, 8000, 120000,
        "1-4 layers, outer x in [1e-2,200] (thorough 900): all-same-index == uniform; duplicate adjacent layer "
        "merged; extra outer layer of medium index; LayeredSphere(n,t) == Sphere(n,cumsum(t)); fields and scattering matrices (cross sections: C03)",
        tolerances={"field_rel": 1e-5, "scat_matrix_rel": 1e-5}),
]
