"""C06 — superposition, polarization linearity, multi-channel = stacked single-channel."""
import math

import numpy as np
from hypothesis import strategies as st

from ..runner import Sub, Outcome, failure, TOLX
from .. import gen

PROPERTY = "C06"
ASSUMPTIONS = [
    "superposition is asserted for the theories documented as treating spheres independently (Mie, MieLens, "
    "AberratedMieLens); Multisphere is excluded there by definition (it adds multiple scattering)",
    "bare Tmatrix rejects polarizations other than (1,0); its linearity is exercised through Lens(Tmatrix)",
]


# ------------------------------------------------------------------------------------------ a
def _sup_member():
    return st.fixed_dictionaries({
        "x": gen.size_param(0.2, 15.0), "m": gen.rel_index(None, 1.05, 2.5).map(lambda t: [t[0], min(t[1], 0.3)]),
        "layers": st.one_of(st.just(None), st.lists(st.floats(0.2, 1.0), min_size=2, max_size=3)),
        "pos": st.tuples(gen.rounded(-10, 10, 3), gen.rounded(-10, 10, 3), gen.rounded(0, 30, 3)).map(list),
    })


def strat_sup(tier):
    return st.fixed_dictionaries({
        "o": gen.optics(True),
        "mem": st.lists(_sup_member(), min_size=1, max_size=6),
        "theory": st.sampled_from(["mie", "mie", "mielens", "amielens"]),
        "nest": st.sampled_from(["flat"]),
        "det": gen.fixed_z_detector(6, 8),
        "lens_angle": gen.rounded(0.2, 1.3, 3),
    })


def run_sup(case):
    from holopy.scattering import Sphere, Spheres, Scatterers, calc_field, calc_holo
    o = case["o"]
    k = gen.wavevec(o)
    unit = o["wl"] / o["nm"]
    det = gen.build_detector(case["det"], unit)
    tname = case["theory"]
    if tname == "mie":
        th = gen.build_theory({"t": "mie"})
    elif tname == "mielens":
        th = gen.build_theory({"t": "mielens", "lens_angle": case["lens_angle"]})
    else:
        th = gen.build_theory({"t": "amielens", "lens_angle": min(case["lens_angle"], 1.2), "ab": [0.5, -0.2]})
    zdet = case["det"]["z"] * unit if case["det"]["kind"] == "grid" else 0.0
    spheres = []
    rmax = max(m["x"] for m in case["mem"]) / k
    for m in case["mem"]:
        r = m["x"] / k
        n = (complex(*m["m"]) if m["m"][1] else m["m"][0]) * o["nm"]
        c = (m["pos"][0] * unit, m["pos"][1] * unit, zdet + rmax + (0.3 + m["pos"][2]) * unit)
        if m["layers"] and tname == "mie":
            fr = np.cumsum(m["layers"]); fr = fr / fr[-1]
            rr = [float(f * r) for f in fr]
            if all(b > a for a, b in zip(rr[:-1], rr[1:])):
                spheres.append(Sphere(n=[n * (1 + 0.05 * i) for i in range(len(rr))], r=rr, center=c))
                continue
        spheres.append(Sphere(n=n, r=r, center=c))
    kk = len(spheres)
    labels = [tname, case["nest"], "k%d" % kk]
    if case["nest"] == "flat" or kk < 2:
        comp = Spheres(spheres, warn=False)
    elif case["nest"] == "scatterers":
        comp = Scatterers(list(spheres))
    else:
        h = kk // 2
        comp = Scatterers([Scatterers(spheres[:h]), Scatterers([Spheres(spheres[h:], warn=False)])]) if h else Scatterers(list(spheres))
    kw = gen.optics_kwargs(o)
    total = calc_field(det, comp, theory=th, **kw)
    parts = [calc_field(det, s, theory=th, **kw) for s in spheres]
    tv = gen.flatten(total, gen.detector_points_xyz(case["det"], unit))[1]
    pv = sum(gen.flatten(p, gen.detector_points_xyz(case["det"], unit))[1] for p in parts)
    scale = max(np.abs(gen.flatten(p, gen.detector_points_xyz(case["det"], unit))[1]).max() for p in parts)
    err = np.abs(tv - pv).max() / scale
    if not np.isfinite(err) or err > 1e-12 * TOLX:
        return Outcome(failure("superposition", "field of %d spheres differs from the sum of member fields by %.3g (rel) [%s, %s]" % (kk, err, tname, case["nest"]),
                               theory=tname), True, labels)
    # hologram of the collection from the summed member fields
    H = gen.flatten(calc_holo(det, comp, theory=th, **kw), gen.detector_points_xyz(case["det"], unit))[1]
    nrm = math.hypot(*o["pol"])
    want = np.abs(pv[:, 0] + o["pol"][0] / nrm) ** 2 + np.abs(pv[:, 1] + o["pol"][1] / nrm) ** 2
    eh = np.abs(H - want).max() / max(1.0, np.abs(want).max())
    if not (eh <= 1e-11 * TOLX):
        return Outcome(failure("superposition_hologram", "hologram of the collection differs from |sum E + e|^2 by %.3g" % eh, theory=tname), True, labels)
    distinct = len({round(m["x"], 6) for m in case["mem"]}) >= 2
    return Outcome(None, kk >= 2 and distinct, labels, metrics={"superposition_" + tname: err})


# ------------------------------------------------------------------------------------------ b
LIN_KINDS = ["sphere", "layered", "cluster_mie", "cluster_ms", "mielens", "amielens", "lens"]
LIN_TOL = {"mie": 1e-12, "ms": 1e-10, "mielens": 1e-12, "amielens": 1e-12, "lens": 1e-12, "lens_tm": 1e-10}


def strat_lin(tier):
    from .c05 import _scene
    opts = []
    for kd in LIN_KINDS + ["lens_tm"]:
        opts.append(st.fixed_dictionaries({"o": gen.optics(True), "det": gen.fixed_z_detector(5, 6), "sc": _scene(kd)}))
    return st.tuples(st.one_of(*opts), st.tuples(st.floats(-10, 10), st.floats(-10, 10)).filter(
        lambda t: math.hypot(*t) > 0.1)).map(lambda t: dict(t[0], ab=list(t[1])))


def run_lin(case):
    from holopy.scattering import calc_field
    from .c05 import _tkey
    o, det, sc = case["o"], case["det"], case["sc"]
    unit = o["wl"] / o["nm"]
    tk = _tkey(sc)
    if sc["th"]["t"] == "lens":
        if det["kind"] == "grid":
            det = dict(det, spacing=[min(det["spacing"][0], 0.3), min(det["spacing"][1], 0.3)], origin=[0.0, 0.0])
        else:
            det = {"kind": "points", "pts": [[p[0] * 0.2, p[1] * 0.2, 0.0] for p in det["pts"]]}
        if "kz" in sc["pl"]:
            sc = dict(sc, pl=dict(sc["pl"], kz=max(-60.0, min(80.0, sc["pl"]["kz"]))))
        sc = dict(sc, th=dict(sc["th"], q=[40, 44]))
    d = gen.build_detector(det, unit)
    s, th, info = gen.build_scene(sc, o, det)
    a, b = case["ab"]
    pts = gen.detector_points_xyz(det, unit)
    labels = [tk]

    def E(pol):
        return gen.flatten(calc_field(d, s, theory=th, medium_index=o["nm"], illum_wavelen=o["wl"], illum_polarization=pol), pts)[1]
    try:
        Ex, Ey, Eab = E((1.0, 0.0)), E((0.0, 1.0)), E((a, b))
    except Exception as e:
        if type(e).__name__ == "MultisphereFailure":
            return Outcome(None, False, labels + ["MultisphereFailure"], skipped=True)
        raise
    want = (a * Ex + b * Ey) / math.hypot(a, b)
    scale = max(np.abs(Ex).max(), np.abs(Ey).max())
    err = np.abs(Eab - want).max() / scale
    if not np.isfinite(err) or err > LIN_TOL[tk] * TOLX:
        return Outcome(failure("polarization_linearity", "E(%.4g,%.4g) differs from (a Ex + b Ey)/|(a,b)| by %.3g (rel) [%s]" % (a, b, err, tk),
                               theory=tk), True, labels)
    generic = abs(a) > 1e-3 and abs(b) > 1e-3
    return Outcome(None, generic, labels + (["generic_pol"] if generic else []), metrics={"linearity_" + tk: err})


# ------------------------------------------------------------------------------------------ c
LABELS = [["red", "green"], ["green", "red"], ["red", "green", "blue"], ["blue", "red", "green"], ["b", "a"], [2, 1], ["x1", "x0", "x2"]]


def _chan(n):
    return st.fixed_dictionaries({
        "wl": gen.rounded(0.35, 1.0, 4), "pol": gen.polarization(True), "m": gen.rel_index(None, 1.05, 2.2).map(lambda t: [t[0], min(t[1], 0.2)]),
        "x": gen.size_param(0.5, 12.0), "alpha": gen.rounded(0.3, 1.2, 3), "noise": gen.rounded(0.01, 0.5, 3)})


def strat_chan(tier):
    return st.sampled_from(LABELS).flatmap(lambda labs: st.fixed_dictionaries({
        "labels": st.just(labs),
        "ch": st.lists(_chan(len(labs)), min_size=len(labs), max_size=len(labs)),
        "perm": st.permutations(list(range(len(labs)))),
        "perms": st.lists(st.permutations(list(range(len(labs)))), min_size=5, max_size=5),
        "nm": st.sampled_from([1.0, 1.33, 1.5]),
        "shape": st.tuples(st.integers(1, 5), st.integers(1, 5)).map(list),
        "spacing": gen.rounded(0.05, 0.5, 3),
        "wl_form": st.sampled_from(["dict", "dataarray", "scalar"]),
        # dataarray_raw: a labelled (illumination x vector) array assembled by hand from the raw, not unit-length, components
        "pol_form": st.sampled_from(["dict", "dataarray", "dataarray_raw", "scalar"]),
        "n_form": st.sampled_from(["dict", "dataarray", "scalar"]),
        "r_form": st.sampled_from(["dict", "scalar", "scalar"]),
        "alpha_form": st.sampled_from(["dict", "scalar"]),
        "det_form": st.sampled_from(["grid", "image", "metadata_on_detector"]),
        "center": st.tuples(gen.rounded(-0.5, 1.5, 3), gen.rounded(-0.5, 1.5, 3), gen.rounded(3.0, 20.0, 3)).map(list),
        "theory": st.sampled_from(["mie", "mie", "mielens"]),
        "what": st.sampled_from(["holo", "field", "intensity"]),
    }))


def run_chan(case):
    import xarray as xr
    import holopy as hp
    from holopy.scattering import Sphere, calc_holo, calc_field, calc_intensity
    from holopy.core.metadata import detector_grid, update_metadata, to_vector
    labs = case["labels"]
    nch = len(labs)
    ch = {l: c for l, c in zip(labs, case["ch"])}
    order = [labs[i] for i in case["perm"]]         # key order used in the dictionaries (differs from the detector's)
    nm = case["nm"]
    forms = {k: case[k] for k in ("wl_form", "pol_form", "n_form", "r_form", "alpha_form")}
    if forms["wl_form"] == "scalar" and forms["pol_form"] == "scalar":
        forms["wl_form"] = "dict"          # at least one per-channel optics entry makes it multi-channel
    ref = ch[labs[0]]

    def val(l, key):
        form = forms[{"wl": "wl_form", "pol": "pol_form", "m": "n_form", "x": "r_form", "alpha": "alpha_form"}[key]]
        return (ref if form == "scalar" else ch[l])[key]
    kref = 2 * math.pi * nm / ref["wl"]
    radius = {l: val(l, "x") / kref for l in labs}       # radii in length units (fixed reference k so 'scalar' is one number)
    index = {l: (complex(*val(l, "m")) if val(l, "m")[1] else val(l, "m")[0]) * nm for l in labs}

    # every quantity lists the channels in its own order (dictionaries and labelled arrays are matched by
    # label, so the orders must not matter, neither relative to the detector nor relative to each other)
    orders = [[labs[i] for i in pm] for pm in case.get("perms", [case["perm"]] * 5)]

    def as_form(form, per_label, vector=False, order=order):
        if form == "scalar":
            return per_label[labs[0]]
        if form == "dict":
            return {l: per_label[l] for l in order}
        if vector and form == "dataarray_raw":
            return xr.DataArray(np.array([list(per_label[l])[:2] + [0.0] for l in order], dtype=float), dims=["illumination", "vector"],
                                coords={"illumination": order, "vector": ["x", "y", "z"]})
        if vector:
            return xr.concat([to_vector(per_label[l]) for l in order], xr.DataArray(order, dims="illumination", name="illumination"))
        return xr.DataArray([per_label[l] for l in order], dims="illumination", coords={"illumination": order})
    wl = as_form(forms["wl_form"], {l: val(l, "wl") for l in labs}, order=orders[0])
    pol = as_form(forms["pol_form"], {l: tuple(val(l, "pol")) for l in labs}, vector=True, order=orders[1])
    n = as_form(forms["n_form"], index, order=orders[2])
    r = as_form(forms["r_form"], radius, order=orders[3])
    alpha = as_form(forms["alpha_form"], {l: val(l, "alpha") for l in labs}, order=orders[4])
    sp = case["spacing"]
    shape = tuple(case["shape"])
    c = case["center"]
    center = (c[0] * sp * shape[0], c[1] * sp * shape[1], c[2] * ref["wl"] / nm)
    det = detector_grid(shape, sp, extra_dims={"illumination": list(labs)})
    if case["det_form"] == "image":
        rng = np.arange(det.size, dtype=float).reshape(det.shape) * 0.01 + 0.5
        det = det.copy(data=rng)
    kwargs = dict(medium_index=nm, illum_wavelen=wl, illum_polarization=pol)
    if case["det_form"] == "metadata_on_detector":
        det = update_metadata(det, medium_index=nm, illum_wavelen=wl, illum_polarization=pol)
        kwargs = {}
    th_name = case["theory"]
    th = gen.build_theory({"t": "mie"}) if th_name == "mie" else gen.build_theory({"t": "mielens", "lens_angle": 0.9})
    s = Sphere(n=n, r=r, center=center)
    what = case["what"]
    labels_out = [what, th_name, "nch%d" % nch] + ["%s=%s" % (k, v) for k, v in sorted(forms.items())]
    if what == "holo":
        res = calc_holo(det, s, theory=th, scaling=alpha, **kwargs)
    elif what == "field":
        res = calc_field(det, s, theory=th, **kwargs)
    else:
        res = calc_intensity(det, s, theory=th, **kwargs)
    if "illumination" not in res.dims or sorted(map(str, res.illumination.values)) != sorted(map(str, labs)):
        return Outcome(failure("channel_labels", "result channels %r, expected %r" % (list(getattr(res, "illumination", xr.DataArray([])).values), labs)), True, labels_out)
    single = detector_grid(shape, sp)
    worst = 0.0
    for l in labs:
        s1 = Sphere(n=index[l], r=radius[l], center=center)
        kw1 = dict(medium_index=nm, illum_wavelen=val(l, "wl"), illum_polarization=tuple(val(l, "pol")))
        if what == "holo":
            one = calc_holo(single, s1, theory=th, scaling=val(l, "alpha"), **kw1)
        elif what == "field":
            one = calc_field(single, s1, theory=th, **kw1)
        else:
            one = calc_intensity(single, s1, theory=th, **kw1)
        got = res.sel(illumination=l)
        dims = [dd for dd in ("vector", "x", "y", "z") if dd in one.dims]
        gv = got.transpose(*dims).values
        ov = one.transpose(*dims).values
        scale = max(np.abs(ov).max(), 1e-300)
        e = np.abs(gv - ov).max() / scale
        worst = max(worst, e)
        if not np.isfinite(e) or e > 1e-11 * TOLX:
            return Outcome(failure("channel_mismatch", "channel %r of the multi-channel %s differs from the single-channel result by %.3g (rel); forms %r"
                                   % (l, what, e, forms), what=what), True, labels_out)
        for cn in ("x", "y"):
            if not np.array_equal(got.coords[cn].values, one.coords[cn].values):
                return Outcome(failure("channel_coordinates", "coordinate %s of channel %r differs" % (cn, l)), True, labels_out)
    # metadata per channel retained (by label)
    aw = res.attrs.get("illum_wavelen")
    for l in labs:
        w = float(aw.sel(illumination=l)) if isinstance(aw, xr.DataArray) and "illumination" in aw.dims else float(np.asarray(aw).ravel()[0])
        if abs(w - val(l, "wl")) > 0:
            return Outcome(failure("channel_metadata", "result metadata has wavelength %r for channel %r, expected %r" % (w, l, val(l, "wl"))), True, labels_out)
    differing = sum(len({repr(val(l, key)) for l in labs}) > 1 for key in ("wl", "pol", "m", "x"))
    mixed = len({tuple(o_) for o_ in orders[:2]}) > 1
    return Outcome(None, differing >= 2 and (list(order) != list(labs) or mixed), labels_out + (["mixed_key_orders"] if mixed else []), metrics={"channel_rel": worst})


SUBCHECKS = [
    Sub("superposition", strat_sup, run_sup, 1600, 30000,
        "1-6 spheres (uniform and 2-3 layer members under Mie) in a Spheres collection (generic Scatterers containers "
        "have no centre and are not accepted by calc_* on this tree, see DESIGN section 8), theories Mie, MieLens, AberratedMieLens (overlaps allowed: superposition ignores them); field "
        "= sum of member fields and hologram = |sum+e|^2; non-trivial = >=2 members of distinct size",
        tolerances={"field_rel": 1e-12, "holo_rel": 1e-11}),
    Sub("polarization_linearity", strat_lin, run_lin, 1600, 30000,
        "(a,b) from [-10,10]^2 (norm>0.1): E(a,b) = (a E(1,0) + b E(0,1))/|(a,b)| for Mie, layered, Mie superposition, "
        "Multisphere (tight), MieLens, AberratedMieLens, Lens(Mie), Lens(Tmatrix); non-trivial = both components non-zero",
        tolerances=LIN_TOL),
    Sub("multi_channel", strat_chan, run_chan, 1600, 30000,
        "2-3 illumination labels in non-sorted orders (incl. integers), every dictionary / labelled array keyed in its own independently permuted order; "
        "wavelength/polarization/index given as dict, labelled DataArray or scalar; radius/scaling as dict or scalar; "
        "detector = zero grid, image with values, or grid already carrying the optics; holo/field/intensity; every "
        "channel must equal the single-channel call; non-trivial = >=2 quantities differ between channels and key order "
        "differs from the detector's",
        tolerances={"rel": 1e-11}),
]
