"""C10 — T-matrix scatterers: sphere limit, symmetry, never abort the interpreter.
Every case runs in a forked child: death of the child without a result is the observed event."""
import math

import numpy as np
from hypothesis import strategies as st

from ..runner import Sub, Outcome, failure, TOLX
from .. import gen

PROPERTY = "C10"
ASSUMPTIONS = [
    "Mie(False, False) is the far-field Lorenz-Mie result the T-matrix code (far-field only) is compared with",
    "a forked child that exits without delivering a result = the interpreter was terminated (Fortran STOP exits "
    "with status 0); Python exceptions are delivered as results and are legitimate outcomes of sub-check d",
    "child wall-clock limit 120 s: an overrun is recorded as inconclusive, never as a violation",
]

_angle_any = st.one_of(st.floats(0, math.pi), st.floats(0, 2 * math.pi), st.floats(-7.0, 7.0),
                       st.sampled_from([0.0, -0.0, math.pi / 2, math.pi, 2 * math.pi, -math.pi / 2, 3 * math.pi, 1e-7, -1e-7,
                                        math.pi * (1 + 1e-15), 100.0, -100.0, 1e6]))


def _pts(n=6, lim=12.0):
    return st.lists(st.tuples(gen.rounded(-lim, lim, 3), gen.rounded(-lim, lim, 3)), min_size=1, max_size=n).map(
        lambda l: [[a, b, 0.0] for a, b in l])


# ---------------------------------------------------------------- a/b: sphere limit
def strat_sphere(tier):
    return st.fixed_dictionaries({
        "o": gen.optics(True, pol=st.just([1.0, 0.0])),
        "s": gen.sphere_dimless(0.1, 20.0, None, 0.6, 2.2).map(lambda s: dict(s, m=[s["m"][0], min(s["m"][1], 0.3)])),
        # detector directions: polar angle up to ~1 rad, azimuth uniform
        "dirs": st.lists(st.tuples(st.floats(0.0, 1.0), st.one_of(st.floats(0, 2 * math.pi),
                                                                  st.sampled_from([0.0, math.pi / 2, math.pi, 3 * math.pi / 2]))),
                         min_size=1, max_size=6).map(lambda l: [list(t) for t in l]),
        "kdist": gen.logu(30.0, 3000.0),
        "as_spheroid": st.booleans(),
        "rot": st.tuples(_angle_any, _angle_any, _angle_any).map(list),
        "mode": st.sampled_from(["field", "scat_matrix", "lens"]),
        "lens_angle": gen.rounded(0.2, 1.1, 3),
        "polang": gen.pol_angle(),
    })


def run_sphere(case):
    import holopy as hp
    from holopy.scattering import calc_field, calc_scat_matrix, Sphere, Spheroid, Mie, Tmatrix
    from holopy.scattering.theory import Lens
    o, s = case["o"], case["s"]
    k = gen.wavevec(o)
    r = s["x"] / k
    n = (complex(*s["m"]) if s["m"][1] else s["m"][0]) * o["nm"]
    z0 = case["kdist"] / k
    labels = [case["mode"], "as_spheroid" if case["as_spheroid"] else "as_sphere"]
    th = np.array([d[0] for d in case["dirs"]]); ph = np.array([d[1] for d in case["dirs"]])
    center = (0.0, 0.0, z0)
    sph = Sphere(n=n, r=r, center=center)
    tm_obj = Spheroid(n=n, r=(r, r), rotation=tuple(case["rot"]), center=center) if case["as_spheroid"] else sph
    x = z0 * np.tan(th) * np.cos(ph); y = z0 * np.tan(th) * np.sin(ph)
    det = hp.detector_points(x=x, y=y, z=0.0)
    met = {}
    if case["mode"] == "field":
        kw = gen.optics_kwargs(o)
        a = calc_field(det, tm_obj, theory=Tmatrix(), **kw).values
        b = calc_field(det, sph, theory=Mie(False, False), **kw).values
        tol = 1e-4
    elif case["mode"] == "scat_matrix":
        a = calc_scat_matrix(det, tm_obj, o["nm"], o["wl"], theory=Tmatrix()).values
        b = calc_scat_matrix(det, sph, o["nm"], o["wl"], theory=Mie()).values
        tol = 1e-4
    else:
        # inside the lens wrapper, any polarization; small window so a modest quadrature is converged
        pa = case["polang"]
        kw = dict(medium_index=o["nm"], illum_wavelen=o["wl"], illum_polarization=(math.cos(pa), math.sin(pa)))
        unit = o["wl"] / o["nm"]
        det = hp.detector_points(x=np.cos(ph) * th * 1.5 * unit, y=np.sin(ph) * th * 1.5 * unit, z=0.0)
        zz = min(z0, 60.0 / k)
        sph = Sphere(n=n, r=r, center=(0, 0, zz))
        tm_obj = Spheroid(n=n, r=(r, r), rotation=tuple(case["rot"]), center=(0, 0, zz)) if case["as_spheroid"] else sph
        q = gen.lens_quad_order(k * zz, 2 * math.pi * 1.5, case["lens_angle"], s["x"])
        a = calc_field(det, tm_obj, theory=Lens(case["lens_angle"], Tmatrix(), q, q), **kw).values
        b = calc_field(det, sph, theory=Lens(case["lens_angle"], Mie(False, False), q, q), **kw).values
        tol = 1e-4
    if not np.all(np.isfinite(a)):
        return Outcome(failure("nonfinite", "Tmatrix result not finite", mode=case["mode"]), True, labels)
    scale = np.abs(b).max()
    err = np.abs(a - b).max() / scale
    met["sphere_limit_%s" % case["mode"]] = err
    if not (err <= tol * TOLX):
        return Outcome(failure("sphere_limit", "%s: T-matrix vs Lorenz-Mie differ by %.3g (rel), x=%.4g, azimuths %r" % (
            case["mode"], err, s["x"], [round(v, 3) for v in ph.tolist()]), mode=case["mode"], as_spheroid=case["as_spheroid"]), True, labels)
    offplane = np.any((np.abs(np.sin(ph)) > 0.1) & (th > 0.2))
    return Outcome(None, bool(offplane), labels + (["off_plane"] if offplane else []), metrics=met)


# ---------------------------------------------------------------- c: axial symmetries
def strat_sym(tier):
    return st.fixed_dictionaries({
        "o": gen.optics(True, pol=st.just([1.0, 0.0])),
        "kind": st.sampled_from(["spheroid", "cylinder"]),
        "xv": gen.size_param(0.3, 8.0),
        "aspect": st.floats(math.log(0.3), math.log(3.0)).map(math.exp),
        "m": gen.rel_index(None, 1.05, 2.0).map(lambda t: [t[0], min(t[1], 0.2)]),
        "rot": st.tuples(st.floats(0, 2 * math.pi), st.floats(0, math.pi), st.floats(0, 2 * math.pi)).map(list),
        "spin": st.floats(-7, 7),
        "pts": _pts(),
        "kgap": gen.logu(20.0, 500.0),
        "rel": st.sampled_from(["spin", "reverse", "period", "integer_angles", "integer_angles"]),
        # Euler angles given as integers (python ints, numpy ints, in a tuple, list or integer array), also out of range
        "irot": st.tuples(st.integers(-9, 9), st.integers(-9, 9), st.integers(-9, 9)).map(list),
        "iform": st.sampled_from(["tuple", "list", "int_array", "np_int"]),
    })


def _axisym(case, rot, center):
    from holopy.scattering import Spheroid, Cylinder
    o = case["o"]
    k = gen.wavevec(o)
    n = (complex(*case["m"]) if case["m"][1] else case["m"][0]) * o["nm"]
    rv = case["xv"] / k
    asp = case["aspect"]
    if case["kind"] == "cylinder":
        asp = min(2.0, max(0.5, asp))
        dd = (16.0 / 3.0 / asp) ** (1.0 / 3.0) * rv
        return Cylinder(n=n, h=asp * dd, d=dd, rotation=tuple(rot), center=center), 0.5 * math.hypot(dd, asp * dd)
    a = rv / asp ** (1.0 / 3.0)
    return Spheroid(n=n, r=(a, asp * a), rotation=tuple(rot), center=center), max(a, asp * a)


def run_sym(case):
    import holopy as hp
    from holopy.scattering import calc_field, calc_scat_matrix, Tmatrix
    o = case["o"]
    k = gen.wavevec(o)
    unit = o["wl"] / o["nm"]
    P = np.array(case["pts"]) * unit
    det = hp.detector_points(x=P[:, 0], y=P[:, 1], z=0.0)
    al, be, ga = case["rot"]
    _, rmax = _axisym(case, (al, be, ga), (0, 0, 1))
    center = (0.3 * unit, -0.2 * unit, rmax + case["kgap"] / k)
    s1, _ = _axisym(case, (al, be, ga), center)
    if case["rel"] == "integer_angles":
        # the same orientation written with integer-typed and with float-typed angles
        ir = case["irot"]
        form = case["iform"]
        rot_i = {"tuple": tuple(ir), "list": list(ir), "int_array": np.array(ir, dtype=np.int64), "np_int": tuple(np.int32(v) for v in ir)}[form]
        s1, _ = _axisym(case, tuple(float(v) for v in ir), center)
        s1i, _ = _axisym(case, (0.0, 0.0, 0.0), center)
        s1i.rotation = rot_i
        rot2 = None
    elif case["rel"] == "spin":
        rot2 = (al + case["spin"], be, ga)
    elif case["rel"] == "reverse":
        rot2 = (al, math.pi - be, ga + math.pi)
    else:
        rot2 = (al, be + 2 * math.pi, ga - 2 * math.pi)
    s2 = s1i if rot2 is None else _axisym(case, rot2, center)[0]
    kw = gen.optics_kwargs(o)
    labels = [case["kind"], case["rel"]]
    res = []
    for sx in (s1, s2):
        try:
            res.append(calc_field(det, sx, theory=Tmatrix(), **kw).values)
        except Exception as e:
            if type(e).__name__ != "InvalidScatterer" or "did not converge" not in str(e):
                raise
            res.append(None)
    if res[0] is None and res[1] is None:
        # documented outcome (T-matrix convergence not reached for this size/shape/index): counted
        return Outcome(None, False, labels + ["documented_nonconvergence"], skipped=True)
    if res[0] is None or res[1] is None:
        # the T-matrix is computed in the particle frame: whether it converges cannot depend on the orientation
        return Outcome(failure("convergence_depends_on_orientation", "%s: InvalidScatterer(non-convergence) for one orientation only (%s)"
                               % (case["kind"], case["rel"]), rel=case["rel"]), True, labels)
    a, b = res
    if not (np.all(np.isfinite(a)) and np.all(np.isfinite(b))):
        return Outcome(failure("nonfinite", "Tmatrix field not finite", kind=case["kind"]), True, labels)
    err = np.abs(a - b).max() / np.abs(a).max()
    if not (err <= 1e-5 * TOLX):
        return Outcome(failure("axial_symmetry", "%s: field changes by %.3g (rel) under %s" % (case["kind"], err, case["rel"]),
                               rel=case["rel"]), True, labels)
    return Outcome(None, abs(math.log(case["aspect"])) > 0.05 and math.sin(be) > 0.05, labels, metrics={"sym_" + case["rel"]: err})


# ---------------------------------------------------------------- d: never abort
def strat_abort(tier):
    return st.fixed_dictionaries({
        "o": gen.optics(True, pol=st.just([1.0, 0.0])),
        "kind": st.sampled_from(["spheroid", "cylinder", "sphere"]),
        # "any size": up to sizes and indices at which 32-bit orders overflow (x ~ 1e9 .. 1e19, |m| up to 1e9), and down to 1e-12
        "xv": st.one_of(gen.size_param(0.05, 8.0), gen.size_param(0.05, 8.0), gen.size_param(8.0, 30.0), gen.size_param(30.0, 3000.0),
                        gen.logu(3e3, 1e19), gen.logu(1e-12, 0.05), st.sampled_from([2.0 ** 31, 2.9e18, 1e300])),
        # the property's aspect-ratio domain (spheroid 0.3-3; cylinders are clipped to 0.5-2 when built)
        "aspect": st.one_of(st.floats(math.log(0.3), math.log(3.0)).map(math.exp), st.sampled_from([1.0, 0.3, 3.0])),
        "m": st.one_of(gen.rel_index(None, 0.5, 3.0), gen.rel_index(None, 0.5, 3.0), st.sampled_from([[1.0, 0.0], [1.5, 5.0], [10.0, 0.0], [1e9, 0.0], [1.5, 1e9], [1e4, 1e4], [1e-6, 0.0]])),
        "rot": st.tuples(_angle_any, _angle_any, _angle_any).map(list),
        "pts": _pts(4),
        "azimuth_exact": st.booleans(),
        "kgap": gen.logu(1.0, 500.0),
        "entry": st.sampled_from(["field", "scat_matrix", "holo"]),
        # scattering directions given directly as angles (calc_scat_matrix accepts such detectors), including polar
        # angles outside [0, pi] and azimuths outside [0, 2 pi)
        "angles": st.one_of(st.none(), st.none(), st.lists(st.tuples(st.one_of(st.floats(0, math.pi), st.floats(-1.0, 7.0), st.sampled_from([0.0, math.pi, -0.0, math.pi + 1e-15, -1e-17])),
                                                                         st.floats(-7.0, 14.0)), min_size=1, max_size=3).map(lambda l: [list(t) for t in l])),
    })


def run_abort(case):
    import holopy as hp
    from holopy.scattering import calc_field, calc_scat_matrix, calc_holo, Tmatrix, Sphere
    o = case["o"]
    k = gen.wavevec(o)
    unit = o["wl"] / o["nm"]
    P = np.array(case["pts"]) * unit
    if case["azimuth_exact"]:
        # points on the axes through the particle: azimuths exactly 0, pi/2, pi, 3pi/2 (and 2pi by rounding)
        P = np.array([[3.0, 0, 0], [-3.0, 0, 0], [0, 3.0, 0], [0, -3.0, 0], [2.0, -1e-17, 0]]) * unit
    labels = [case["kind"], case["entry"]]
    rot = case["rot"]
    out_of_range = not (0 <= rot[1] <= math.pi and 0 <= rot[2] <= 2 * math.pi)
    big = case["xv"] > 60
    if out_of_range:
        labels.append("angle_out_of_range")
    if big:
        labels.append("beyond_convergence")
    c2 = dict(case)
    if case["kind"] == "sphere":
        n = (complex(*case["m"]) if case["m"][1] else case["m"][0]) * o["nm"]
        r = case["xv"] / k
        s = Sphere(n=n, r=r, center=(0, 0, r + case["kgap"] / k)); rmax = r
    else:
        if case["kind"] == "cylinder":
            c2["aspect"] = min(2.0, max(0.5, case["aspect"]))
            case = c2
            nn = (complex(*case["m"]) if case["m"][1] else case["m"][0]) * o["nm"]
            from holopy.scattering import Cylinder
            rv = case["xv"] / k
            dd = (16.0 / 3.0 / case["aspect"]) ** (1.0 / 3.0) * rv
            rmax = 0.5 * math.hypot(dd, case["aspect"] * dd)
            s = Cylinder(n=nn, h=case["aspect"] * dd, d=dd, rotation=tuple(rot), center=(0, 0, rmax + case["kgap"] / k))
        else:
            s, rmax = _axisym(c2, rot, (0, 0, 1))
            s, rmax = _axisym(c2, rot, (0, 0, rmax + case["kgap"] / k))
    det = hp.detector_points(x=P[:, 0], y=P[:, 1], z=0.0)
    kw = gen.optics_kwargs(o)
    if case.get("angles") is not None:
        case = dict(case, entry="scat_matrix")
        A = np.array(case["angles"])
        det = hp.detector_points(theta=A[:, 0], phi=A[:, 1])
        labels.append("directions_as_angles")
        if np.any(A[:, 0] < 0) or np.any(A[:, 0] > math.pi):
            labels.append("polar_angle_out_of_range")
    try:
        if case["entry"] == "field":
            v = calc_field(det, s, theory=Tmatrix(), **kw).values
        elif case["entry"] == "holo":
            v = calc_holo(det, s, theory=Tmatrix(), **kw).values
        else:
            v = calc_scat_matrix(det, s, o["nm"], o["wl"], theory=Tmatrix()).values
    except Exception as e:   # a Python exception is an allowed outcome
        return Outcome(None, out_of_range or big, labels + ["python_exception:" + type(e).__name__])
    if not np.all(np.isfinite(v)):
        return Outcome(failure("nonfinite_without_exception", "returned non-finite values instead of raising (x_v=%.4g aspect=%.4g rot=%r)" % (
            case["xv"], case["aspect"], rot), kind=case["kind"]), True, labels)
    return Outcome(None, out_of_range or big, labels + ["finite_result"])


# ---------------------------------------------------------------- e: call histories
def strat_hist(tier):
    base = st.fixed_dictionaries({"kind": st.sampled_from(["sphere", "spheroid", "cylinder"]), "xv": gen.size_param(0.5, 6.0),
                                  "aspect": st.floats(0.5, 2.0), "mr": gen.rounded(1.1, 1.8, 3), "mi": st.sampled_from([0.0, 0.0, 0.01, 0.1]),
                                  "rot": st.tuples(st.floats(0, 2 * math.pi), st.floats(0, math.pi), st.floats(0, 2 * math.pi)).map(list)})
    vary = st.sampled_from(["mi", "mi", "mr", "xv", "aspect", "rot", "nm", "wl", "kind"])
    return st.fixed_dictionaries({"o": gen.optics(True, pol=st.just([1.0, 0.0])), "base": base, "pts": _pts(3),
                                  "variants": st.lists(st.tuples(vary, st.floats(0.3, 1.0)), min_size=1, max_size=4).map(lambda l: [list(t) for t in l]),
                                  "seq": st.lists(st.integers(0, 4), min_size=3, max_size=10),
                                  "entry": st.sampled_from(["field", "scat_matrix", "lens"])})


def _variant(o, base, var):
    o, b = dict(o), dict(base)
    if var is None:
        return o, b
    what, f = var
    if what == "mi":
        b["mi"] = 0.05 * f if base["mi"] == 0 else base["mi"] * (0.2 + 0.5 * f)
    elif what == "mr":
        b["mr"] = round(base["mr"] * (1 + 0.1 * f), 4)
    elif what == "xv":
        b["xv"] = base["xv"] * (1 + 0.3 * f)
    elif what == "aspect":
        b["aspect"] = min(2.0, base["aspect"] * (1 + 0.3 * f))
    elif what == "rot":
        b["rot"] = [base["rot"][0], (base["rot"][1] + f) % math.pi, (base["rot"][2] + 2 * f) % (2 * math.pi)]
    elif what == "nm":
        o["nm"] = round(o["nm"] * (1 + 0.05 * f), 4)
    elif what == "wl":
        o["wl"] = round(o["wl"] * (1 + 0.1 * f), 4)
    else:
        b["kind"] = {"sphere": "spheroid", "spheroid": "cylinder", "cylinder": "spheroid"}[base["kind"]]
    return o, b


def _tm_calc(o, b, pts, entry):
    import holopy as hp
    from holopy.scattering import calc_field, calc_scat_matrix, Sphere, Tmatrix
    from holopy.scattering.theory import Lens
    k = gen.wavevec(o)
    unit = o["wl"] / o["nm"]
    n = (complex(b["mr"], b["mi"]) if b["mi"] else b["mr"]) * o["nm"]
    if b["kind"] == "sphere":
        r = b["xv"] / k
        s = Sphere(n=n, r=r, center=(0.2 * unit, -0.1 * unit, r + 60.0 / k))
    else:
        c = dict(b, o=o, m=[b["mr"], b["mi"]])
        s, rmax = _axisym(c, b["rot"], (0, 0, 1))
        s, rmax = _axisym(c, b["rot"], (0.2 * unit, -0.1 * unit, rmax + 60.0 / k))
    P = np.array(pts) * unit
    if entry == "lens":
        P = P * 0.1
    det = hp.detector_points(x=P[:, 0], y=P[:, 1], z=0.0)
    try:
        if entry == "field":
            return calc_field(det, s, theory=Tmatrix(), **gen.optics_kwargs(o)).values.tobytes()
        if entry == "scat_matrix":
            return calc_scat_matrix(det, s, o["nm"], o["wl"], theory=Tmatrix()).values.tobytes()
        return calc_field(det, s, theory=Lens(0.7, Tmatrix(), 16, 16), **gen.optics_kwargs(o)).values.tobytes()
    except Exception as e:
        return ("EXC:" + type(e).__name__).encode()


def run_hist(case):
    """T-matrix calls for a particle and single-parameter variants of it, in a generated order inside one
    process: every result must equal the value computed by a child forked before the history started."""
    import os
    o, base = case["o"], case["base"]
    specs = [(_variant(o, base, None))] + [_variant(o, base, v) for v in case["variants"]]
    seq = [i % len(specs) for i in case["seq"]]

    def pristine(i):
        r, w = os.pipe()
        pid = os.fork()
        if pid == 0:
            try:
                os.close(r)
                with os.fdopen(w, "wb") as fh:
                    fh.write(_tm_calc(specs[i][0], specs[i][1], case["pts"], case["entry"]))
            finally:
                os._exit(0)
        os.close(w)
        with os.fdopen(r, "rb") as fh:
            data = fh.read()
        os.waitpid(pid, 0)
        return data
    ref = {i: pristine(i) for i in set(seq)}
    labels = [case["entry"], "variants_" + "+".join(sorted({v[0] for v in case["variants"]}))]
    for step, i in enumerate(seq):
        got = _tm_calc(specs[i][0], specs[i][1], case["pts"], case["entry"])
        if got != ref[i]:
            what = "base particle" if i == 0 else "variant %r" % (case["variants"][i - 1],)
            prev = None if step == 0 else seq[step - 1]
            return Outcome(failure("tmatrix_history_dependence", "step %d (%s, after spec %r): result differs from its value in a fresh process" % (step, what, prev),
                                   entry=case["entry"]), True, labels)
    return Outcome(None, len(set(seq)) >= 2, labels)


SUBCHECKS = [
    Sub("sphere_limit", strat_sphere, run_sphere, 2400, 40000,
        "sphere (or Spheroid r=(a,a) with arbitrary Euler angles incl. out-of-range) x in [0.1,20], polar angle <= 1 rad, "
        "azimuth uniform + {0,pi/2,pi,3pi/2}: Tmatrix field / scattering matrix vs far-field Mie, and Lens(Tmatrix) vs "
        "Lens(Mie) with any polarization; non-trivial = a point >=0.1 rad off the phi=0 plane with theta >= 0.2",
        isolate=True, tolerances={"rel": 1e-4}),
    Sub("axial_symmetry", strat_sym, run_sym, 1600, 30000,
        "spheroids (aspect 0.3-3) and cylinders (0.5-2), x_v in [0.3,8]: unchanged under spin about own axis (first "
        "Euler angle), axis reversal (beta->pi-beta, gamma->gamma+pi) and 2pi periods",
        isolate=True, tolerances={"rel": 1e-5}),
    Sub("never_abort", strat_abort, run_abort, 640, 20000,
        "Euler angles from {in range, negative, >pi/>2pi, huge, +-0, exact multiples of pi/2, pi(1+1e-15)}, size "
        "log-uniform up to x_v=3000 (half of the cases x_v<=8), aspect 0.3-3 (cylinders 0.5-2), absorbing/unphysical indices, detector azimuths "
        "exactly 0/pi/2/pi/3pi/2/2pi-by-rounding; outcome classes finite / Python exception / process died; only the "
        "last (or non-finite without exception) is a violation; non-trivial = angle out of range or x_v > 60",
        isolate=True, tolerances={}, budget_quick=50),
    Sub("call_history", strat_hist, run_hist, 480, 8000,
        "a particle (sphere/spheroid/cylinder) and 1-4 single-parameter variants of it (only Im n, only Re n, size, "
        "aspect, orientation, medium index, wavelength, shape class) evaluated by Tmatrix (field, scattering matrix or "
        "inside Lens) in a generated order of 3-10 calls within one process; each result must be bit-identical to the "
        "value from a child forked before the history (Fortran COMMON/SAVE state must not leak); non-trivial = >=2 "
        "distinct specs in the sequence",
        isolate=True, tolerances={"equality": "bitwise"}, budget_quick=60),
]
