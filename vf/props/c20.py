"""C20 — scatterer containment, layers and overlaps match the analytic shapes."""
import itertools
import math
import warnings
from fractions import Fraction

import numpy as np
from hypothesis import strategies as st

from ..runner import Sub, Outcome, failure, TOLX
from .. import gen

PROPERTY = "C20"
ASSUMPTIONS = [
    "the reference evaluates the defining inequality in exact rational arithmetic (fractions.Fraction of the float "
    "inputs) and abstains when the relative margin |lhs-rhs|/(lhs+rhs) is below 64 ulp, so rounding at the surface "
    "can never raise an alarm",
    "Ellipsoid containment is documented as ignoring rotation: only rotation=(0,0,0) is generated",
    "voxel volumes are compared with the analytic volume within the first-order surface error 3*surface*spacing",
]

EPS = np.finfo(float).eps
_c = gen.rounded(-50, 50, 4)
_r = gen.logu(1e-3, 1e2)


def prim():
    sph = st.fixed_dictionaries({"k": st.just("sphere"), "r": _r, "c": st.tuples(_c, _c, _c).map(list)})
    lay = st.fixed_dictionaries({"k": st.sampled_from(["layered", "layered_t"]), "fr": st.lists(st.floats(0.05, 1.0), min_size=2, max_size=4),
                                 "r": _r, "c": st.tuples(_c, _c, _c).map(list)})
    ell = st.fixed_dictionaries({"k": st.just("ellipsoid"), "r3": st.tuples(_r, _r, _r).map(list), "c": st.tuples(_c, _c, _c).map(list)})
    # the multi-radius Sphere also accepts radii that are not increasing: its region is the ball of the largest radius
    uns = st.fixed_dictionaries({"k": st.just("layered_unsorted"), "fr": st.lists(st.floats(0.05, 1.0), min_size=2, max_size=4),
                                 "r": _r, "c": st.tuples(_c, _c, _c).map(list), "rot": st.integers(0, 3)})
    return st.one_of(sph, lay, ell, lay, uns)


def simple_prim():
    sph = st.fixed_dictionaries({"k": st.just("sphere"), "r": gen.logu(0.1, 10.0), "c": st.tuples(gen.rounded(-5, 5, 3), gen.rounded(-5, 5, 3), gen.rounded(-5, 5, 3)).map(list)})
    ell = st.fixed_dictionaries({"k": st.just("ellipsoid"), "r3": st.tuples(gen.logu(0.1, 10), gen.logu(0.1, 10), gen.logu(0.1, 10)).map(list),
                                 "c": st.tuples(gen.rounded(-5, 5, 3), gen.rounded(-5, 5, 3), gen.rounded(-5, 5, 3)).map(list)})
    return st.one_of(sph, ell)


def shape():
    csg = st.fixed_dictionaries({"k": st.sampled_from(["union", "difference", "intersection"]), "a": simple_prim(), "b": simple_prim()})
    return st.one_of(prim(), prim(), csg)


def radii_of(d):
    fr = np.cumsum(d["fr"]); fr = fr / fr[-1]
    rr = [float(f * d["r"]) for f in fr]
    for i in range(1, len(rr)):
        if rr[i] <= rr[i - 1]:
            rr[i] = float(np.nextafter(rr[i - 1], np.inf)) * 1.001
    return rr


def unsorted_radii(d):
    rr = radii_of(d)
    k = d["rot"] % len(rr)
    return rr[::-1] if k == 0 else rr[k:] + rr[:k]


def build(d, n=1.5):
    from holopy.scattering import Sphere, LayeredSphere, Ellipsoid
    from holopy.scattering.scatterer import Union, Difference, Intersection
    k = d["k"]
    if k == "sphere":
        return Sphere(n=n, r=d["r"], center=tuple(d["c"]))
    if k in ("layered", "layered_t"):
        rr = radii_of(d)
        ns = [n + 0.1 * i + (0.01j if i == 1 else 0) for i in range(len(rr))]
        if k == "layered":
            return Sphere(n=ns, r=rr, center=tuple(d["c"]))
        t = [rr[0]] + [b - a for a, b in zip(rr[:-1], rr[1:])]
        return LayeredSphere(n=ns, t=t, center=tuple(d["c"]))
    if k == "layered_unsorted":
        rr = unsorted_radii(d)
        return Sphere(n=[n + 0.1 * i for i in range(len(rr))], r=rr, center=tuple(d["c"]))
    if k == "ellipsoid":
        return Ellipsoid(n=n, r=tuple(d["r3"]), center=tuple(d["c"]))
    cls = {"union": Union, "difference": Difference, "intersection": Intersection}[k]
    return cls(build(d["a"], n), build(d["b"], n))


def ref_domain(d, p, obj=None):
    """(domain index or bool, decided?) by exact rational arithmetic."""
    k = d["k"]
    P = [Fraction(float(v)) for v in p]
    if k in ("sphere", "layered", "layered_t", "layered_unsorted", "ellipsoid"):
        C = [Fraction(float(v)) for v in d["c"]]
        if k == "ellipsoid":
            lhs = sum(((a - b) / Fraction(float(r))) ** 2 for a, b, r in zip(P, C, d["r3"]))
            rhs = Fraction(1)
            m = abs(lhs - rhs) / (lhs + rhs)
            return (1 if lhs < rhs else 0), m > 64 * EPS
        d2 = sum((a - b) ** 2 for a, b in zip(P, C))
        # radii come from the template (harness-side cumulative sum of the thicknesses), never from the
        # object under test; the 64-ulp abstention absorbs the different rounding of the running sum
        radii = [d["r"]] if k == "sphere" else radii_of(d)
        dom, decided = 0, True
        for i, r in enumerate(radii):
            r2 = Fraction(float(r)) ** 2
            m = abs(d2 - r2) / (d2 + r2) if (d2 + r2) else Fraction(1)
            if m <= 64 * EPS:
                decided = False
            if d2 < r2 and dom == 0:
                dom = i + 1
        if k == "layered_unsorted":
            # which layer a point of an unsorted radius list belongs to is not specified; inside/outside is
            return (1 if dom else 0), decided
        return dom, decided
    a, da = ref_domain(d["a"], p)
    b, db = ref_domain(d["b"], p)
    a, b = bool(a), bool(b)
    if k == "union":
        return (a or b), da and db
    if k == "difference":
        return (a and not b), da and db
    return (a and b), da and db


def bbox(d):
    k = d["k"]
    if k == "sphere":
        return [(c - d["r"], c + d["r"]) for c in d["c"]]
    if k in ("layered", "layered_t", "layered_unsorted"):
        return [(c - d["r"], c + d["r"]) for c in d["c"]]
    if k == "ellipsoid":
        return [(c - r, c + r) for c, r in zip(d["c"], d["r3"])]
    A, B = bbox(d["a"]), bbox(d["b"])
    return [(min(a[0], b[0]), max(a[1], b[1])) for a, b in zip(A, B)]


def query_points(d, case):
    bb = bbox(d)
    pts = []
    for u in case["cloud"]:
        pts.append([lo - 0.25 * (hi - lo) + f * 1.5 * (hi - lo) for (lo, hi), f in zip(bb, u)])
    # points at distance r(1 +- 10^-k) along random directions from each primitive's centre
    prims = [d] if d["k"] not in ("union", "difference", "intersection") else [d["a"], d["b"]]
    for pr in prims:
        for (th, ph, kk, sign, layer) in case["near"]:
            u = np.array([math.sin(th) * math.cos(ph), math.sin(th) * math.sin(ph), math.cos(th)])
            if pr["k"] == "ellipsoid":
                vec = u * np.array(pr["r3"])
            elif pr["k"] == "sphere":
                vec = u * pr["r"]
            else:
                rr = radii_of(pr)
                vec = u * rr[layer % len(rr)]
            pts.append(list(np.array(pr["c"]) + vec * (1 + sign * 10.0 ** (-kk))))
    return np.array(pts, dtype=float)


_near = st.lists(st.tuples(st.floats(0, math.pi), st.floats(0, 2 * math.pi), st.integers(3, 12), st.sampled_from([1.0, -1.0]), st.integers(0, 3)),
                 min_size=2, max_size=8)
_cloud = st.lists(st.tuples(st.floats(0, 1), st.floats(0, 1), st.floats(0, 1)), min_size=2, max_size=10)


def strat_contain(tier):
    return st.fixed_dictionaries({"s": shape(), "cloud": _cloud, "near": _near,
                                  "v": st.tuples(_c, _c, _c).map(list), "bg": st.sampled_from([0, 1.33, 1.0 + 0.1j])})


def run_contain(case):
    d = case["s"]
    s = build(d)
    pts = query_points(d, case)
    labels = [d["k"]]
    dom = s.in_domain(pts)
    con = s.contains(pts)
    if d["k"] in ("layered", "layered_t"):
        want_r = np.array(radii_of(d))
        got_r = np.atleast_1d(np.asarray(s.r, dtype=float))
        if got_r.shape != want_r.shape or np.abs(got_r - want_r).max() > 1e-12 * want_r.max():
            return Outcome(failure("layer_radii", "%s: object reports layer radii %r, thicknesses/radii given imply %r" % (d["k"], got_r.tolist(), want_r.tolist()),
                                   kind=d["k"]), True, labels)
    ndec = 0
    near_both = set()
    refs = []
    for i, p in enumerate(pts):
        want, decided = ref_domain(d, p, s)
        refs.append((want, decided))
        if not decided:
            continue
        ndec += 1
        got = dom[i]
        if d["k"] in ("union", "difference", "intersection", "sphere", "ellipsoid", "layered_unsorted"):
            if bool(got) != bool(want) or bool(con[i]) != bool(want):
                return Outcome(failure("containment", "%s: point %r reported %s, analytic inequality says %s" % (d["k"], p.tolist(), bool(got), bool(want)),
                                       kind=d["k"]), True, labels)
        else:
            if int(got) != int(want):
                return Outcome(failure("layer_index", "%s: point %r in domain %r, analytic layer %r" % (d["k"], p.tolist(), int(got), int(want)), kind=d["k"]), True, labels)
            if bool(con[i]) != bool(want):
                return Outcome(failure("containment", "%s: contains() disagrees with the layer index" % d["k"], kind=d["k"]), True, labels)
    # index_at: that layer's refractive index, background elsewhere
    if d["k"] not in ("union", "difference", "intersection", "layered_unsorted"):
        bg = case["bg"]
        idx = s.index_at(pts, background=bg)
        ns = np.atleast_1d(s.n)
        for i, (want, decided) in enumerate(refs):
            if not decided:
                continue
            exp = ns[int(want) - 1] if want else bg
            if complex(idx[i]) != complex(exp):
                return Outcome(failure("index_at", "%s: index_at gives %r at a point of layer %r (expected %r)" % (d["k"], idx[i], want, exp), kind=d["k"]), True, labels)
    # translation translates the containment region
    v = np.array(case["v"], dtype=float)
    st_ = s.translated(*v) if d["k"] in ("union", "difference", "intersection") else s.translated(v)
    moved = pts + v
    # the shifted points re-round: re-derive the reference on the shifted geometry
    d2 = _shift(d, v)
    con2 = st_.contains(moved)
    for i, p in enumerate(moved):
        want, decided = ref_domain(d2, p, None if d["k"] in ("union", "difference", "intersection") else st_)
        if decided and bool(con2[i]) != bool(want):
            return Outcome(failure("translated_containment", "%s translated by %r: point %r reported %s, analytic %s" % (
                d["k"], v.tolist(), p.tolist(), bool(con2[i]), bool(want)), kind="csg" if d["k"] in ("union", "difference", "intersection") else d["k"]), True, labels)
    # bounding box contains every interior point
    b = s.bounds
    for i, (want, decided) in enumerate(refs):
        if decided and want:
            p = pts[i]
            if not all(lo <= x <= hi for x, (lo, hi) in zip(p, b)):
                return Outcome(failure("bounds", "%s: interior point %r outside the reported bounds %r" % (d["k"], p.tolist(), b), kind=d["k"]), True, labels)
    sides = {(bool(w)) for (w, dec), (th, ph, kk, sg, ly) in zip(refs[len(case["cloud"]):], case["near"] * 2) if dec and kk >= 6}
    return Outcome(None, len(sides) == 2 and ndec >= 3, labels + (["surface_both_sides"] if len(sides) == 2 else []))


def _shift(d, v):
    if d["k"] in ("union", "difference", "intersection"):
        return dict(d, a=_shift(d["a"], v), b=_shift(d["b"], v))
    return dict(d, c=[float(np.float64(c) + np.float64(x)) for c, x in zip(d["c"], v)])


# ------------------------------------------------------------------------------------------ voxels
def strat_vox(tier):
    return st.fixed_dictionaries({"s": st.one_of(simple_prim(), st.fixed_dictionaries({"k": st.just("layered"), "fr": st.lists(st.floats(0.2, 1.0), min_size=2, max_size=3),
                                                                                       "r": gen.logu(0.2, 5.0), "c": st.tuples(gen.rounded(-5, 5, 3), gen.rounded(-5, 5, 3), gen.rounded(-5, 5, 3)).map(list)})),
                                  "res": st.integers(12, 22)})


def run_vox(case):
    d = case["s"]
    s = build(d)
    if d["k"] == "ellipsoid":
        a, b, c = d["r3"]
        vol = 4 / 3 * math.pi * a * b * c
        p = 1.6075
        surf = 4 * math.pi * (((a * b) ** p + (a * c) ** p + (b * c) ** p) / 3) ** (1 / p)
        size = 2 * max(a, b, c); small = min(a, b, c)
    else:
        r = d["r"]
        vol = 4 / 3 * math.pi * r ** 3; surf = 4 * math.pi * r * r; size = 2 * r; small = r
    errs = []
    for res in (case["res"], 2 * case["res"], 3 * case["res"]):
        sp = size / res
        if d["k"] == "ellipsoid" and small / sp < 3:
            continue
        dom = s.voxelate_domains(sp)
        got = float((dom > 0).sum()) * sp ** 3
        err = abs(got - vol)
        errs.append(err / vol)
        if not (err <= 3.0 * surf * sp * TOLX):
            return Outcome(failure("voxel_volume", "%s: voxel volume %.6g vs analytic %.6g at spacing %.4g (allowed %.4g)" % (d["k"], got, vol, sp, 3 * surf * sp), kind=d["k"]), True, [d["k"]])
    return Outcome(None, bool(errs), [d["k"]], metrics={"voxel_rel_err": max(errs) if errs else 0.0})


# ------------------------------------------------------------------------------------------ Spheres
def strat_spheres(tier):
    ints = st.integers(-6, 6)
    mem = st.fixed_dictionaries({"c": st.tuples(ints, ints, ints).map(list), "r": st.integers(1, 4),
                                 "layered": st.booleans(), "jit": st.tuples(st.floats(-1, 1), st.floats(-1, 1), st.floats(-1, 1)).map(list)})
    # near: member i is instead placed almost in contact with member i-1: centre distance (r_i + r_{i-1})(1 + sign*10^-k)
    near = st.one_of(st.none(), st.none(), st.fixed_dictionaries({
        "u": st.tuples(st.floats(0, math.pi), st.floats(0, 2 * math.pi)).map(list), "k": st.floats(2.0, 14.0), "sign": st.sampled_from([-1, 1])}))
    mem = st.tuples(mem, near).map(lambda t: dict(t[0], near=t[1]))
    return st.fixed_dictionaries({"mem": st.lists(mem, min_size=1, max_size=8), "exact": st.booleans(), "warn": st.booleans(),
                                  "scale": st.sampled_from([1.0, 0.5, 0.1, 1e-3, 7.0, 1e-7, 3e5]),
                                  "fraction": st.one_of(st.floats(0.0, 1.0), st.sampled_from([0.0, 0.1])),
                                  "bad": st.sampled_from(["none", "none", "none", "non_sphere_member", "add_non_sphere", "negative_radius", "scalar_center", "short_center",
                                                          "layered_negative_inner_radius", "layered_class_negative_thickness", "layered_class_short_center",
                                                          "layered_class_scalar_center", "long_center"])})


def run_spheres(case):
    from holopy.scattering import Sphere, Spheres, Ellipsoid
    from holopy.scattering.errors import OverlapWarning, InvalidScatterer
    from holopy.inference.model import LimitOverlaps
    sc = case["scale"]
    labels = ["exact_integer_geometry" if case["exact"] else "jittered", "warn" if case["warn"] else "nowarn"]
    spheres, cs, rs = [], [], []
    for m in case["mem"]:
        c = [(a + (0 if case["exact"] else 0.3 * j)) * sc for a, j in zip(m["c"], m["jit"])]
        r = m["r"] * sc * (1.0 if case["exact"] else 1.0)
        nr = m.get("near")
        if nr is not None and cs:
            th, ph = nr["u"]
            u = (math.sin(th) * math.cos(ph), math.sin(th) * math.sin(ph), math.cos(th))
            dd = (r + rs[-1]) * (1.0 + nr["sign"] * 10.0 ** (-nr["k"]))
            c = [a + dd * b for a, b in zip(cs[-1], u)]
            if "near_contact" not in labels:
                labels.append("near_contact")
        cs.append(c); rs.append(r)
        spheres.append(Sphere(n=[1.5, 1.6], r=[r * 0.5, r], center=tuple(c)) if m["layered"] else Sphere(n=1.5, r=r, center=tuple(c)))
    bad = case["bad"]
    if bad != "none":
        labels.append(bad)
        try:
            if bad == "non_sphere_member":
                Spheres(spheres + [Ellipsoid(n=1.5, r=(1, 2, 3), center=(0, 0, 0))], warn=False)
            elif bad == "add_non_sphere":
                Spheres(spheres, warn=False).add(Ellipsoid(n=1.5, r=(1, 2, 3), center=(0, 0, 0)))
            elif bad == "negative_radius":
                Sphere(n=1.5, r=-rs[0], center=tuple(cs[0]))
            elif bad == "scalar_center":
                Sphere(n=1.5, r=rs[0], center=3.0)
            elif bad == "long_center":
                Sphere(n=1.5, r=rs[0], center=(1.0, 2.0, 3.0, 4.0))
            elif bad == "layered_negative_inner_radius":
                Sphere(n=(1.5, 1.6), r=(-0.5 * rs[0], rs[0]), center=tuple(cs[0]))
            elif bad == "layered_class_negative_thickness":
                from holopy.scattering import LayeredSphere
                LayeredSphere(n=(1.5, 1.6), t=(-0.5 * rs[0], 2 * rs[0]), center=tuple(cs[0]))
            elif bad == "layered_class_short_center":
                from holopy.scattering import LayeredSphere
                LayeredSphere(n=(1.5, 1.6), t=(0.5 * rs[0], rs[0]), center=(1.0, 2.0))
            elif bad == "layered_class_scalar_center":
                from holopy.scattering import LayeredSphere
                LayeredSphere(n=(1.5, 1.6), t=(0.5 * rs[0], rs[0]), center=3.0)
            else:
                Sphere(n=1.5, r=rs[0], center=(1.0, 2.0))
        except InvalidScatterer:
            return Outcome(None, True, labels)
        except Exception as e:
            return Outcome(failure("rejection_wrong_exception", "%s raises %s, documented InvalidScatterer" % (bad, type(e).__name__), bad=bad), True, labels)
        return Outcome(failure("malformed_accepted", "%s accepted without error" % bad, bad=bad), True, labels)
    with warnings.catch_warnings(record=True) as w:
        warnings.simplefilter("always")
        S = Spheres(spheres, warn=case["warn"])
    nwarn = sum(issubclass(x.category, OverlapWarning) for x in w)
    # reference pairs in exact arithmetic
    want_pairs, undecided, largest = [], False, Fraction(0)
    for i, j in itertools.combinations(range(len(spheres)), 2):
        d2 = sum((Fraction(float(a)) - Fraction(float(b))) ** 2 for a, b in zip(cs[i], cs[j]))
        sm = Fraction(float(rs[i])) + Fraction(float(rs[j]))
        marg = abs(d2 - sm * sm) / (d2 + sm * sm)
        if marg <= 64 * EPS:
            undecided = undecided or (d2 != sm * sm) or not case["exact"]
            touching_exact = (d2 == sm * sm)
            if touching_exact and case["exact"] and sc in (1.0, 0.5, 7.0):
                continue      # exactly touching in exactly representable geometry: distance == sum -> not an overlap
            undecided = True
            continue
        if d2 < sm * sm:
            want_pairs.append((i, j))
    dist = lambda i, j: math.sqrt(sum((a - b) ** 2 for a, b in zip(cs[i], cs[j])))
    want_largest = max([0.0] + [rs[i] + rs[j] - dist(i, j) for i, j in itertools.combinations(range(len(spheres)), 2)])
    got_pairs = [tuple(p) for p in S.overlaps]
    if not undecided:
        if sorted(got_pairs) != sorted(want_pairs):
            return Outcome(failure("overlap_pairs", "overlaps %r, analytic %r" % (got_pairs, want_pairs)), True, labels)
        if bool(nwarn) != (bool(want_pairs) and case["warn"]):
            return Outcome(failure("overlap_warning", "%d OverlapWarning(s) with warn=%s and %d overlapping pairs" % (nwarn, case["warn"], len(want_pairs))), True, labels)
    lo = S.largest_overlap()
    lscale = max(max(rs), max(abs(a) for c in cs for a in c))
    if not (abs(lo - want_largest) <= 1e-13 * lscale * TOLX):
        return Outcome(failure("largest_overlap", "largest_overlap %r, expected max(sum radii - distance, 0) = %r" % (lo, want_largest)), True, labels)
    lim = LimitOverlaps(case["fraction"])
    thr = 2 * min(rs) * case["fraction"]
    # the constraint is documented in terms of the sphere diameter; for layered members that notion is
    # ambiguous in the code (it takes the smallest layer radius), so it is checked for uniform spheres only
    uniform = not any(m["layered"] for m in case["mem"])
    raw_largest = max([-math.inf] + [rs[i] + rs[j] - dist(i, j) for i, j in itertools.combinations(range(len(spheres)), 2)])
    if uniform and thr == 0 and len(spheres) >= 2 and raw_largest < -1e-9 * max(rs):
        # clearly separated spheres have overlap exactly 0, which a zero allowance ("no overlap") permits
        if not lim.check(S):
            return Outcome(failure("limit_overlaps", "LimitOverlaps(0).check is False for clearly separated spheres (largest raw overlap %r)" % raw_largest), True, labels)
    if uniform and abs(want_largest - thr) > 1e-9 * max(rs) and lim.check(S) != (want_largest <= thr):
        return Outcome(failure("limit_overlaps", "LimitOverlaps(%r).check = %r but largest overlap %r vs allowed %r" % (case["fraction"], lim.check(S), want_largest, thr)), True, labels)
    n = len(spheres)
    ov = len(want_pairs)
    return Outcome(None, n >= 3 and 0 < ov < n * (n - 1) // 2, labels + (["undecided_boundary"] if undecided else []))


SUBCHECKS = [
    Sub("containment_layers_translation_bounds", strat_contain, run_contain, 30000, 400000,
        "Sphere, layered Sphere/LayeredSphere (2-4 layers), Ellipsoid (unrotated), Union/Difference/Intersection of two "
        "primitives; radii 1e-3..1e2; 2-10 cloud points in 1.5x the bounding box + 2-8 points at r(1 +- 10^-k), k=3..12, "
        "along random directions of every primitive/layer; in_domain/contains/index_at vs exact-rational inequality "
        "(abstains within 64 ulp); translated(v).contains(p+v); bounds contain interior points; multi-radius Spheres also with radii in non-increasing order (containment and bounds only: the ball of the largest radius); non-trivial = decided "
        "points within 1e-6 r on both sides of a surface",
        tolerances={"abstain_rel_margin": "64 ulp"}),
    Sub("voxel_volume", strat_vox, run_vox, 1200, 12000,
        "spheres, layered spheres, ellipsoids voxelised at size/res, size/2res, size/3res (res 12-22): occupied volume "
        "within 3*surface*spacing of the analytic volume", tolerances={"abs": "3*surface*spacing"}),
    Sub("sphere_collections", strat_spheres, run_spheres, 30000, 400000,
        "1-8 spheres on an integer lattice (radii 1-4, scaled) so that touching/nested pairs occur exactly, or "
        "jittered; layered members (outer radius counts): overlaps == pairs with distance < sum of outer radii (exact "
        "arithmetic, exactly touching = no overlap, near-boundary abstains), largest_overlap, OverlapWarning iff overlap "
        "and warn=True, LimitOverlaps.check, non-Sphere members / negative radius / malformed centre rejected",
        tolerances={"largest_overlap_abs": "1e-12*max r"}),
]
