"""C09 — sphere clusters: order independence, rotation covariance, default-theory rule."""
import itertools
import math
import warnings

import numpy as np
from hypothesis import strategies as st

from ..runner import Sub, Outcome, failure, TOLX
from .. import gen

PROPERTY = "C09"
ASSUMPTIONS = [
    "'to solver accuracy' is tested with tight SCSMFO options (qeps1=1e-12, qeps2=1e-15, eps=1e-9, niter=400); the "
    "iteration stops at a squared residual of 1e-9, and order dependence is judged at 1e-4 relative (measured <= 2e-7 "
    "over 2880 clusters on the repaired tree). Up to repo commit 21bd44a the measured dependence was 1e-3..0.17 and "
    "had been mis-attributed to truncation (tolerance 2e-2); it was the vctran defect, see known_findings.json",
    "clusters are generated inside the compiled limits (nod, notd, npd parsed from scfodim.for): x_i <= 4, k R <~ 40",
    "documented non-convergence (MultisphereFailure) is counted and must stay rare",
    "the one-sphere limit of the multi-sphere solver is checked in C02 (multisphere_one_sphere)",
    "detector points lie well outside the sphere circumscribing the cluster (k*gap >= 40 vs k R <= ~20): the "
    "cluster-centred expansion the solver evaluates does not converge inside it, where order dependence is series noise",
]

TOL_ORDER = 1e-4
TIGHT = dict(qeps1=1e-12, qeps2=1e-15, eps=1e-9, niter=400)


def _cluster(kmax, xhi=3.5):
    mem = st.fixed_dictionaries({"x": gen.size_param(0.3, xhi), "m": gen.rel_index(None, 0.7, 2.0).map(lambda t: [t[0], min(t[1], 0.2)]),
                                 "dir": st.tuples(st.floats(0.2, math.pi - 0.2), st.floats(0, 2 * math.pi)).map(list),
                                 "dist": st.floats(1.02, 1.5),
                                 # optionally: k * (distance from the first sphere) at a zero of a Riccati-Bessel function
                                 "kd": st.one_of(st.none(), st.none(), st.none(), st.integers(0, 44))})
    return st.lists(mem, min_size=2, max_size=kmax)


def _pts():
    return st.lists(st.tuples(gen.rounded(-10, 10, 3), gen.rounded(-10, 10, 3)), min_size=1, max_size=5).map(
        lambda l: {"kind": "points", "pts": [[a, b, 0.0] for a, b in l]})


def strat_perm(tier):
    return st.fixed_dictionaries({
        "o": gen.optics(True), "mem": _cluster(6), "det": _pts(),
        "pl": st.fixed_dictionaries({"fx": gen.rounded(0, 1, 3), "fy": gen.rounded(0, 1, 3), "kgap": gen.logu(40.0, 400.0)}),
        "meth": st.sampled_from([0, 1]), "radial": st.booleans(),
        "perms": st.lists(st.permutations(list(range(6))), min_size=6, max_size=6),
        "op": st.sampled_from(["permute", "permute", "rotate"]), "angle": st.floats(0, 2 * math.pi),
        # symmetric arrangement: the first sphere sits exactly (in floating point) at the mean of all centres, the
        # others in +-v pairs around it (collinear triple, centred rhombus)
        "sym": st.sampled_from([False, False, False, True]),
    })


def run_perm(case):
    import holopy as hp
    from holopy.scattering import calc_field, Multisphere, Spheres, Sphere
    o, det = case["o"], case["det"]
    unit = o["wl"] / o["nm"]
    sc = {"kind": "cluster", "mem": case["mem"], "pl": case["pl"], "th": {"t": "ms", "meth": case["meth"], "radial": case["radial"], "tight": True}}
    s, _, info = gen.build_scene(sc, o, det)
    if case.get("sym") and len(s.scatterers) >= 3:
        q = 2.0 ** -8
        mem = list(s.scatterers)
        if len(mem) % 2 == 0:
            mem = mem[:-1]
        c0 = np.round(np.array(mem[0].center, dtype=float) / q) * q
        r0 = float(mem[0].r)
        placed = [Sphere(n=mem[0].n, r=mem[0].r, center=tuple(c0))]
        dirs = [np.array([1.0, 0.0, 0.0]), np.array([0.0, 1.0, 0.0])]
        for j in range((len(mem) - 1) // 2):
            a_, b_ = mem[1 + 2 * j], mem[2 + 2 * j]
            rr = max(float(a_.r), float(b_.r))
            dist = math.ceil(1.3 * (r0 + rr) / q) * q
            v = dirs[j % 2] * dist * (1 + j // 2)
            placed.append(Sphere(n=a_.n, r=rr, center=tuple(c0 + v)))
            placed.append(Sphere(n=b_.n, r=rr, center=tuple(c0 - v)))
        s = Spheres(placed, warn=False)
        assert np.array_equal(np.array([p_.center for p_ in placed]).mean(0), c0)
    th = Multisphere(meth=case["meth"], compute_escat_radial=case["radial"], **TIGHT)
    P = gen.detector_points_xyz(det, unit)
    d = hp.detector_points(x=P[:, 0], y=P[:, 1], z=P[:, 2])
    kw = gen.optics_kwargs(o)
    k = len(s.scatterers)
    labels = ["k%d" % k, "meth%d" % case["meth"], case["op"], "absorbing" if any(m["m"][1] > 0 for m in case["mem"]) else "real"]
    if case.get("sym") and k >= 3:
        labels.append("sphere_exactly_at_centroid")
    try:
        base = calc_field(d, s, theory=th, **kw).values
    except Exception as e:
        if type(e).__name__ == "MultisphereFailure":
            return Outcome(None, False, labels + ["MultisphereFailure"], skipped=True)
        raise
    scale = np.abs(base).max()
    worst = 0.0
    if case["op"] == "rotate":
        a = case["angle"]
        R = np.array([[math.cos(a), -math.sin(a), 0], [math.sin(a), math.cos(a), 0], [0, 0, 1.0]])
        s2 = Spheres([Sphere(n=m.n, r=m.r, center=tuple(R @ np.array(m.center))) for m in s.scatterers], warn=False)
        P2 = P @ R.T
        pol2 = R @ np.array([o["pol"][0], o["pol"][1], 0.0])
        d2 = hp.detector_points(x=P2[:, 0], y=P2[:, 1], z=P2[:, 2])
        try:
            E2 = calc_field(d2, s2, theory=th, medium_index=o["nm"], illum_wavelen=o["wl"], illum_polarization=(pol2[0], pol2[1])).values
        except Exception as e:
            if type(e).__name__ == "MultisphereFailure":
                return Outcome(None, False, labels + ["MultisphereFailure"], skipped=True)
            raise
        err = np.abs(E2 - base @ R.T).max() / scale
        if not np.isfinite(err) or err > 3e-4 * TOLX:
            return Outcome(failure("cluster_rotation", "%d-sphere cluster: field violates rotation covariance by %.3g (rel), angle %.4g" % (k, err, a),
                                   meth=case["meth"]), True, labels)
        return Outcome(None, k >= 3 and abs(math.sin(2 * a)) > 1e-2, labels, metrics={"rotation_k%d" % k: err})
    if k <= 4:
        perms = [p for p in itertools.permutations(range(k)) if list(p) != list(range(k))]
        labels.append("all_permutations")
    else:
        perms = []
        for p in case["perms"]:
            q = [i for i in p if i < k]
            if q != list(range(k)) and tuple(q) not in perms:
                perms.append(tuple(q))
    # Evaluate every order first.  If the iterative solver reports non-convergence (documented
    # MultisphereFailure) for any order, the cluster sits at the edge of the solver's convergence and
    # the other orders are not trustworthy either: such clusters are counted, not judged.
    # The biconjugate-gradient solver (meth=0) is the one that reliably flags it, so every order is
    # also solved with it.
    vals = []
    other = Multisphere(meth=1 - case["meth"], compute_escat_radial=case["radial"], **TIGHT)
    marginal = False
    for p in [tuple(range(k))] + list(perms):
        sp = Spheres([s.scatterers[i] for i in p], warn=False)
        for theory, keep in ((th, True), (other, False)):
            try:
                v = calc_field(d, sp, theory=theory, **kw).values
                if keep and list(p) != list(range(k)):
                    vals.append((p, v))
            except Exception as e:
                if type(e).__name__ != "MultisphereFailure":
                    raise
                marginal = True
    if marginal:
        # recorded separately: the solver returned results for these orders without raising
        for p, v in vals:
            err = np.abs(v - base).max() / scale
            if np.isfinite(err) and err > TOL_ORDER * TOLX:
                return Outcome(failure("order_dependence_unflagged_nonconvergence",
                                       "%d-sphere cluster, order %r differs by %.3g (rel) and no MultisphereFailure was raised for it, while "
                                       "another order/solver reports non-convergence" % (k, list(p), err), meth=case["meth"],
                                       has_absorbing_sphere=any(m["m"][1] > 0 for m in case["mem"])), True,
                               labels + ["marginal_convergence_some_order_fails"])
        return Outcome(None, False, labels + ["marginal_convergence_some_order_fails"], skipped=True)
    for p, v in vals:
        err = np.abs(v - base).max() / scale
        worst = max(worst, err)
        if not np.isfinite(err) or err > TOL_ORDER * TOLX:
            return Outcome(failure("order_dependence", "%d-sphere cluster listed in order %r differs from the original order by %.3g (rel)" % (k, list(p), err),
                                   meth=case["meth"], has_absorbing_sphere=any(m["m"][1] > 0 for m in case["mem"])), True, labels)
    return Outcome(None, k >= 3 and len(perms) > 0, labels, metrics={"permutation_k%d" % k: worst})


# ------------------------------------------------------------------------------------------ d
def strat_rule(tier):
    sph = st.fixed_dictionaries({"r": gen.rounded(0.05, 2.0, 4), "layered": st.booleans(),
                                 "u": st.tuples(st.floats(0.05, math.pi - 0.05), st.floats(0, 2 * math.pi)).map(list),
                                 "frac": st.floats(0.0, 1.0)})
    return st.fixed_dictionaries({
        "kind": st.sampled_from(["sphere", "layered_sphere", "spheres", "spheres", "spheres", "spheres_one", "spheres_layered_member",
                                 "spheroid", "cylinder", "ellipsoid", "scatterers", "csg", "janus", "non_scatterer", "missing_center",
                                 "theory_class"]),
        "mem": st.lists(sph, min_size=2, max_size=5),
        # separation of the farthest pair relative to the 30-radius boundary
        "delta": st.one_of(st.sampled_from([0.0, 1e-9, -1e-9, 1e-6, -1e-6, 1e-3, -1e-3, 0.5, -0.5]), st.floats(-0.9, 3.0)),
        "o": gen.optics(False),
        "omit": st.booleans(),
        "listing": st.permutations(list(range(5))),
    })


def run_rule(case):
    import holopy as hp
    from holopy.scattering import (Sphere, Spheres, Spheroid, Cylinder, Ellipsoid, Scatterers, calc_holo, Mie, Multisphere, Tmatrix)
    from holopy.scattering.scatterer import Union, JanusSphere_Uniform
    from holopy.scattering.interface import determine_default_theory_for, interpret_theory
    from holopy.scattering.errors import AutoTheoryFailed, InvalidScatterer
    from holopy.core.errors import DependencyMissing
    o = case["o"]
    kind = case["kind"]
    labels = [kind]
    det = hp.detector_grid(4, 0.1)
    kw = dict(medium_index=o["nm"], illum_wavelen=o["wl"], illum_polarization=(1, 0))
    n = 1.2 * o["nm"]

    def same_as_explicit(scat, theory):
        with warnings.catch_warnings():
            warnings.simplefilter("ignore")
            a = calc_holo(det, scat, theory=theory, **kw).values
            b = calc_holo(det, scat, theory="auto", **kw).values
            c = calc_holo(det, scat, **kw).values
        if not (np.array_equal(a, b) and np.array_equal(a, c)):
            return failure("auto_differs_from_explicit", "theory omitted/'auto' gives a different hologram than naming %s" % type(theory).__name__, kind=kind)
        return None

    if kind in ("sphere", "layered_sphere"):
        s = Sphere(n=n if kind == "sphere" else [n, n * 1.1], r=0.5 if kind == "sphere" else [0.3, 0.5], center=(0.2, 0.2, 3.0))
        t = determine_default_theory_for(s)
        if type(t) is not Mie:
            return Outcome(failure("default_theory", "single sphere -> %s, documented Lorenz-Mie" % type(t).__name__, kind=kind), True, labels)
        f = same_as_explicit(s, Mie())
        return Outcome(f, True, labels)
    if kind in ("spheres", "spheres_one", "spheres_layered_member"):
        mem = case["mem"] if kind != "spheres_one" else case["mem"][:1]
        rmax = max(m["r"] for m in mem)
        target = 30.0 * rmax * (1.0 + case["delta"]) if len(mem) > 1 else 0.0
        # first two members span the largest separation `target`; the others lie strictly inside the segment
        c0 = np.array([0.0, 0.0, 50.0 * rmax + 10.0])
        th_, ph_ = mem[0]["u"]
        u = np.array([math.sin(th_) * math.cos(ph_), math.sin(th_) * math.sin(ph_), math.cos(th_) * 0.2])
        u = u / np.linalg.norm(u)
        centers = [c0, c0 + u * target] + [c0 + u * target * (0.1 + 0.8 * m["frac"]) for m in mem[2:]]
        spheres = []
        for i, (m, c) in enumerate(zip(mem, centers)):
            if kind == "spheres_layered_member" and i == 0:
                spheres.append(Sphere(n=[n, n * 1.05], r=[m["r"] * 0.5, m["r"]], center=tuple(c)))
            else:
                spheres.append(Sphere(n=n, r=m["r"], center=tuple(c)))
        # the extreme pair may sit anywhere in the listing order (the rule is about all pairs)
        perm = [i for i in case["listing"] if i < len(spheres)]
        spheres = [spheres[i] for i in perm]
        if perm[:2] not in ([0, 1], [1, 0]):
            labels.append("extreme_pair_not_listed_first")
        with warnings.catch_warnings():
            warnings.simplefilter("ignore")
            s = Spheres(spheres, warn=False)
            t = determine_default_theory_for(s)
        # the documented rule, evaluated independently with exact rational arithmetic where it is decided
        cs = np.array([sp.center for sp in spheres], dtype=float)
        dmax = max([0.0] + [float(np.linalg.norm(a - b)) for a, b in itertools.combinations(cs, 2)])
        margin = abs(dmax - 30.0 * rmax)
        if len(spheres) == 1:
            want = Mie
        elif kind == "spheres_layered_member":
            want = Mie
        elif margin <= 1e-12 * 30 * rmax:
            want = None      # on the boundary to rounding: either choice is the documented one
            labels.append("on_boundary_abstain")
        else:
            want = Multisphere if dmax < 30.0 * rmax else Mie
        if margin <= 1e-5 * 30 * rmax:
            labels.append("near_boundary")
        if want is not None and type(t) is not want:
            return Outcome(failure("default_theory", "%d spheres, max separation/(30 r_max) = %.12g -> %s, documented rule gives %s" % (
                len(spheres), dmax / (30 * rmax), type(t).__name__, want.__name__), kind=kind), True, labels)
        if type(t) is Multisphere and dmax * gen.wavevec(o) > 60:
            return Outcome(None, want is not None, labels + ["rule_only_cluster_too_large_to_compute"])
        try:
            f = same_as_explicit(s, type(t)())
        except Exception as e:
            if type(e).__name__ == "MultisphereFailure":
                return Outcome(None, False, labels + ["MultisphereFailure"], skipped=True)
            raise
        return Outcome(f, want is not None and len(spheres) >= 2, labels)
    if kind in ("spheroid", "cylinder"):
        s = Spheroid(n=n, r=(0.3, 0.5), rotation=(0, 0.4, 0.3), center=(0.2, 0.2, 5.0)) if kind == "spheroid" else \
            Cylinder(n=n, h=0.8, d=0.5, rotation=(0, 0.4, 0.3), center=(0.2, 0.2, 5.0))
        t = determine_default_theory_for(s)
        if type(t) is not Tmatrix:
            return Outcome(failure("default_theory", "%s -> %s, documented T-matrix" % (kind, type(t).__name__), kind=kind), True, labels)
        return Outcome(same_as_explicit(s, Tmatrix()), True, labels)
    if kind in ("ellipsoid", "scatterers", "csg", "janus"):
        if kind == "ellipsoid":
            s = Ellipsoid(n=n, r=(0.3, 0.4, 0.5), center=(0, 0, 5.0))
        elif kind == "scatterers":
            s = Scatterers([Sphere(n=n, r=0.3, center=(0, 0, 5.0)), Ellipsoid(n=n, r=(0.3, 0.4, 0.5), center=(2, 0, 5.0))])
        elif kind == "csg":
            s = Union(Sphere(n=n, r=0.3, center=(0, 0, 5.0)), Sphere(n=n, r=0.3, center=(0.3, 0, 5.0)))
        else:
            s = JanusSphere_Uniform(n=[n, n * 1.1], r=[0.3, 0.35], rotation=(0.1, 0.2), center=(0, 0, 5.0))
        for call in (lambda: determine_default_theory_for(s), lambda: calc_holo(det, s, **kw)):
            try:
                call()
            except DependencyMissing as e:
                if "adda" not in str(e).lower() and "dda" not in str(e).lower():
                    return Outcome(failure("dda_error_message", "DependencyMissing does not mention the DDA solver: %s" % e, kind=kind), True, labels)
                continue
            except Exception as e:
                return Outcome(failure("dda_missing_dependency", "%s without the external solver raises %s: %s" % (kind, type(e).__name__, str(e)[:200]), kind=kind), True, labels)
            return Outcome(failure("dda_missing_dependency", "%s: no error although the external DDA solver is absent" % kind, kind=kind), True, labels)
        return Outcome(None, True, labels)
    if kind == "non_scatterer":
        for obj in (3.0, "sphere", None, [Sphere(n=n, r=0.3, center=(0, 0, 5.0))], {"n": 1.5}):
            try:
                determine_default_theory_for(obj)
            except AutoTheoryFailed:
                continue
            except Exception as e:
                return Outcome(failure("non_scatterer_error", "non-scatterer %r raises %s instead of the documented AutoTheoryFailed" % (obj, type(e).__name__)), True, labels)
            return Outcome(failure("non_scatterer_error", "no error for non-scatterer %r" % (obj,)), True, labels)
        return Outcome(None, True, labels)
    if kind == "missing_center":
        s = Spheres([Sphere(n=n, r=0.3, center=(0, 0, 5.0)), Sphere(n=n, r=0.3)], warn=False)
        try:
            determine_default_theory_for(s)
        except InvalidScatterer:
            return Outcome(None, True, labels)
        except Exception as e:
            return Outcome(failure("missing_center_error", "raises %s" % type(e).__name__), True, labels)
        return Outcome(failure("missing_center_error", "no error for a cluster with a sphere without centre"), True, labels)
    # a theory class is accepted in place of an instance
    s = Sphere(n=n, r=0.5, center=(0.2, 0.2, 3.0))
    a = calc_holo(det, s, theory=Mie, **kw).values
    b = calc_holo(det, s, theory=Mie(), **kw).values
    if not np.array_equal(a, b):
        return Outcome(failure("theory_class_vs_instance", "theory=Mie differs from theory=Mie()"), True, labels)
    return Outcome(None, True, labels)


# ------------------------------------------------------------------------------------------ cross sections
CONVERGED = dict(qeps1=1e-14, qeps2=1e-16, eps=1e-26, niter=2000)
_SPECIAL_ANGLES = [math.pi / 2, math.pi, 3 * math.pi / 2, -math.pi / 2, -math.pi / 6, -1.0, 2 * math.pi - 0.3, 7.0, math.pi / 4, 3 * math.pi / 4]


def strat_xsec(tier):
    return st.fixed_dictionaries({
        "o": gen.optics(True), "mem": _cluster(4, xhi=2.5),
        "pl": st.fixed_dictionaries({"fx": gen.rounded(0, 1, 3), "fy": gen.rounded(0, 1, 3), "kgap": gen.logu(40.0, 400.0)}),
        "meth": st.sampled_from([0, 1]),
        "angle": st.one_of(st.floats(-2 * math.pi, 4 * math.pi), st.sampled_from(_SPECIAL_ANGLES)),
        # the asymmetry parameter is a numerical integral over all directions (scipy dblquad, ~10-100 s per call);
        # most cases replace the integrator by a fixed product rule (Gauss-Legendre in cos(theta) x trapezoid in phi),
        # some 2-sphere cases keep the library's own
        "own_integrator": st.sampled_from([False] * 9 + [True]),
    })


def _product_rule(nth, nph):
    x, w = np.polynomial.legendre.leggauss(nth)
    th_ = np.arccos(x)
    ph_ = np.arange(nph) * 2 * math.pi / nph

    def integrate(integrand):
        # the library's integrands carry the factor sin(theta): integrate over cos(theta) instead
        tot = 0.0
        for t, wi in zip(th_, w):
            stt = math.sin(t)
            tot += wi / stt * sum(integrand(t, p) for p in ph_)
        return tot * 2 * math.pi / nph
    return integrate


def run_xsec(case):
    from holopy.scattering import calc_cross_sections, Multisphere, Spheres, Sphere
    import holopy.scattering.theory.multisphere as msmod
    o = case["o"]
    sc = {"kind": "cluster", "mem": case["mem"], "pl": case["pl"], "th": {"t": "ms", "meth": case["meth"], "radial": False, "tight": True}}
    s, _, info = gen.build_scene(sc, o, {"kind": "points", "pts": [[0.0, 0.0, 0.0]]})
    k = len(s.scatterers)
    th = Multisphere(meth=case["meth"], **CONVERGED)
    a = case["angle"]
    R = np.array([[math.cos(a), -math.sin(a), 0], [math.sin(a), math.cos(a), 0], [0, 0, 1.0]])
    s2 = Spheres([Sphere(n=m.n, r=m.r, center=tuple(R @ np.array(m.center))) for m in s.scatterers], warn=False)
    p1 = np.array([o["pol"][0], o["pol"][1], 0.0])
    p2 = R @ p1
    own = bool(case["own_integrator"]) and k == 2
    oblique = abs(p1[0] * p1[1]) > 1e-3 * (p1 @ p1) or abs(p2[0] * p2[1]) > 1e-3 * (p2 @ p2)
    labels = ["k%d" % k, "meth%d" % case["meth"], "own_integrator" if own else "product_rule",
              "pol_y_negative_after_rotation" if p2[1] < -1e-3 * math.hypot(p2[0], p2[1]) and abs(p2[0]) > 1e-3 * math.hypot(p2[0], p2[1]) else "pol_other",
              "oblique_polarization" if oblique else "axis_polarization"]
    saved = msmod._integrate4pi
    if not own:
        cs_ = np.array(info["centers"], dtype=float)
        kR = 2 * math.pi * o["nm"] / o["wl"] * (np.linalg.norm(cs_ - cs_.mean(0), axis=1) + np.array(info["radii"], dtype=float)).max()
        lmax_guess = int(kR + 4.05 * kR ** (1 / 3.0) + 2)
        msmod._integrate4pi = _product_rule(lmax_guess + 10, 2 * lmax_guess + 16)
    try:
        try:
            x1 = np.asarray(calc_cross_sections(s, o["nm"], o["wl"], gen.polarization_argument(o), theory=th).values, dtype=float)
            x2 = np.asarray(calc_cross_sections(s2, o["nm"], o["wl"], (p2[0], p2[1]), theory=th).values, dtype=float)
        except Exception as e:
            if type(e).__name__ == "MultisphereFailure":
                return Outcome(None, False, labels + ["MultisphereFailure"], skipped=True)
            raise
    finally:
        msmod._integrate4pi = saved
    names = ["scattering", "absorption", "extinction", "asymmetry"]
    ref = np.array([abs(x1[0]), abs(x1[2]), abs(x1[2]), 1.0])    # absorption is a difference: judged against extinction
    tol = np.array([1e-6, 1e-6, 1e-6, 1e-5 if not own else 1e-4])
    err = np.abs(x2 - x1) / ref
    if not np.all(np.isfinite(x1)) or not np.all(np.isfinite(x2)):
        return Outcome(failure("cross_sections_not_finite", "%d-sphere cluster: cross sections %r / rotated %r" % (k, x1.tolist(), x2.tolist()), meth=case["meth"]), True, labels)
    bad = [i for i in range(4) if err[i] > tol[i] * TOLX]
    if bad:
        i = bad[0]
        return Outcome(failure("cross_section_rotation", "%d-sphere cluster: %s cross section changes from %.10g to %.10g (rel %.3g) when cluster and "
                               "polarization are rotated together by %.6g rad about the optical axis" % (k, names[i], x1[i], x2[i], err[i], a),
                               quantity=names[i], meth=case["meth"]), True, labels)
    return Outcome(None, oblique and k >= 2, labels, metrics={"xsec_rotation_" + names[i]: float(err[i]) for i in range(4)})


SUBCHECKS = [
    Sub("order_and_rotation", strat_perm, run_perm, 480, 8000,
        "2-6 non-overlapping spheres (x_i in [0.3,3.5], m in [0.7,2.0], weakly absorbing allowed) inside the compiled "
        "SCSMFO limits, both interaction solvers, tight options; every permutation for k<=4 (bounded-exhaustive per "
        "case), 6 random orders for k=5-6; or rotation of the whole configuration, polarization and detector points about z; "
        "non-trivial = k>=3 with a non-identity order (or a generic rotation angle)",
        tolerances={"order_rel": 1e-4, "rotation_rel": 3e-4}, budget_quick=100),
    Sub("cross_section_rotation", strat_xsec, run_xsec, 160, 3000,
        "2-4 sphere clusters (x_i in [0.3,2.5]), both interaction solvers with converged options; cluster and polarization "
        "rotated together about the optical axis by generic angles in [-2pi, 4pi] and special ones (multiples of pi/4, negative): "
        "calc_cross_sections must return the same four numbers (scattering, absorption, extinction rel 1e-6; asymmetry 1e-5); "
        "the asymmetry integral uses a fixed product rule in most cases (the library's dblquad takes minutes) and the "
        "library's own integrator in some 2-sphere cases; non-trivial = polarization oblique to the axes before or after",
        tolerances={"cross_sections_rel": 1e-6, "asymmetry_abs": 1e-5}, budget_quick=60),
    Sub("default_theory_rule", strat_rule, run_rule, 3000, 60000,
        "scatterers of every class; Spheres with the largest pair separation placed at 30 r_max (1+delta), delta in "
        "{0, +-1e-9, +-1e-6, +-1e-3, +-0.5, uniform}, layered member, single member, missing centre; reference predicate "
        "= documented rule (abstains within 1e-12 of the boundary); theory omitted / 'auto' bit-equal to naming the "
        "theory; class == instance; DDA shapes -> DependencyMissing mentioning the solver; non-scatterers -> AutoTheoryFailed",
        tolerances={"equality": "bitwise"}),
]
