"""C16 — images keep values, coordinates and metadata through I/O and metadata edits."""
import math
import os
import tempfile
import warnings

import numpy as np
from hypothesis import strategies as st

from ..runner import Sub, Outcome, failure, TOLX
from .. import gen
from .c01 import det_fingerprint

PROPERTY = "C16"
ASSUMPTIONS = [
    "all files are written under a per-case TemporaryDirectory that is removed at the end of the case",
    "TIFF export quantizes: auto-scaled 8/16-bit values are compared within (max-min)/(2^bits-1)*0.51, float exactly "
    "after the documented rescale; HDF5 is compared bit for bit",
    "TIFF is exercised for greyscale and 3-channel red/green/blue images (the formats the exporter documents)",
]

_names = st.sampled_from([None, "image", "my image", "bild_ü", "a.b"])
_shape = st.tuples(st.integers(1, 24), st.integers(1, 24)).map(list)
_spacing = st.one_of(
    st.tuples(gen.logu(1e-3, 1e3), st.one_of(st.none(), gen.logu(1e-3, 1e3))).map(lambda t: [t[0], t[1] if t[1] else t[0]]),
    st.tuples(gen.logu(1e-3, 1e3), st.one_of(st.none(), gen.logu(1e-3, 1e3))).map(lambda t: [t[0], t[1] if t[1] else t[0]]),
    # nearly square pixels, and lengths in small units (metres: spacings of 1e-8..1e-6)
    st.tuples(gen.logu(1e-9, 1e3), st.sampled_from([1e-9, 1e-6, 4e-6, 3e-5, 1e-3, 1e-2, -1e-6, -1e-2])).map(lambda t: [t[0], t[0] * (1 + t[1])]),
    st.tuples(gen.logu(1e-9, 1e-6), gen.logu(1e-9, 1e-6)).map(list))


def make_image(case):
    import xarray as xr
    from holopy.core.metadata import data_grid, update_metadata
    rng = np.random.RandomState(case["seed"] % (2 ** 31))
    chans = case.get("channels") or []
    shp = tuple(case["shape"]) + ((len(chans),) if chans else ())
    a = rng.uniform(case["lo"], case["lo"] + case["span"], size=shp)
    dt = case.get("dtype", "float64")
    if dt == "float32":
        a = a.astype(np.float32)
    elif dt == "int":
        a = np.round(a * 50).astype(np.int64)
    md = case.get("meta") or {}
    kw = {}
    for k in ("medium_index", "illum_wavelen", "illum_polarization", "noise_sd"):
        v = md.get(k)
        if isinstance(v, dict) and not chans:
            v = list(v.values())[0]
        if k == "illum_polarization" and v is not None and not isinstance(v, dict):
            v = tuple(v)
        if isinstance(v, dict) and k == "illum_polarization":
            v = {c: tuple(p) for c, p in v.items()}
        kw[k] = v
    if chans:
        for j, k in enumerate(("illum_wavelen", "illum_polarization", "noise_sd")):
            v = kw[k]
            if isinstance(v, dict):
                if len(v) < len(chans):
                    kw[k] = list(v.values())[0]
                    continue
                per = {c: v[c2] for c, c2 in zip(chans, list(v.keys())[:len(chans)])}
                # dictionaries are matched to channels by label: key them in an order of their own
                rot = (case.get("seed", 0) + j) % len(chans)
                keys = list(chans)[rot:] + list(chans)[:rot]
                if (case.get("seed", 0) // 7 + j) % 2:
                    keys = keys[::-1]
                kw[k] = {c: per[c] for c in keys}
                case.setdefault("_expected", {})[k] = per
    im = data_grid(a, spacing=tuple(case["spacing"]), name=case.get("name"), extra_dims={"illumination": list(chans)} if chans else None,
                   z=case.get("z", 0.0))
    o = case.get("origin") or [0.0, 0.0]
    if o[0] or o[1]:
        im = im.assign_coords(x=im.x.values + o[0], y=im.y.values + o[1])
    npm = case.get("np_meta")
    if npm:
        # scalar metadata as numpy scalars of another width (e.g. the float32 standard deviation of a float32 image)
        for k in ("medium_index", "illum_wavelen", "noise_sd"):
            if isinstance(kw.get(k), float):
                kw[k] = getattr(np, npm)(kw[k])
    im = update_metadata(im, **kw)
    if case.get("pol_dims") == "vector_first":
        p_ = im.attrs.get("illum_polarization")
        if isinstance(p_, xr.DataArray) and p_.ndim == 2:
            im.attrs["illum_polarization"] = p_.transpose("vector", "illumination")
    return im


def expected_per_channel(case, im):
    """per-channel dictionary metadata must land on the channel named by its key."""
    for k, per in (case.get("_expected") or {}).items():
        got = im.attrs.get(k)
        for c, want in per.items():
            try:
                g = got.sel(illumination=c).values
            except Exception as e:
                return "attr %s cannot be selected by channel %r: %s" % (k, c, e)
            if k == "illum_polarization":
                w = np.array([want[0], want[1], 0.0]); w = w / np.sqrt((w ** 2).sum())
                if np.abs(np.asarray(g, dtype=float) - w).max() > 1e-15:
                    return "polarization of channel %r stored as %r, given %r" % (c, np.asarray(g).tolist(), list(want))
            elif float(g) != want:
                return "%s of channel %r stored as %r, given %r (dictionary keyed in another order than the image's channels)" % (k, c, float(g), want)
    return None


def attrs_equal(a, b, what):
    import xarray as xr
    keys = {"medium_index", "illum_wavelen", "illum_polarization", "noise_sd"}
    for k in keys:
        va, vb = a.attrs.get(k), b.attrs.get(k)
        if isinstance(va, xr.DataArray) or isinstance(vb, xr.DataArray):
            if not (isinstance(va, xr.DataArray) and isinstance(vb, xr.DataArray)):
                return "%s: attr %s is %s after, %s before" % (what, k, type(vb).__name__, type(va).__name__)
            try:
                vb2 = vb.transpose(*va.dims)
                for dname in va.dims:
                    vb2 = vb2.sel({dname: va[dname].values})
            except Exception as e:
                return "%s: attr %s labels changed (%s)" % (what, k, e)
            if not np.array_equal(np.asarray(va.values), np.asarray(vb2.values)):
                return "%s: attr %s values %r -> %r" % (what, k, va.values.tolist(), vb2.values.tolist())
        else:
            if va is None and vb is None:
                continue
            if va is None or vb is None or not np.all(np.asarray(va) == np.asarray(vb)):
                return "%s: attr %s %r -> %r" % (what, k, va, vb)
    return None


def _meta():
    pol = gen.polarization(True)
    return st.fixed_dictionaries({
        "medium_index": st.one_of(st.none(), gen.rounded(1.0, 1.7, 4)),
        "illum_wavelen": st.one_of(st.none(), gen.rounded(0.3, 1.1, 4), st.fixed_dictionaries({"red": gen.rounded(0.6, 0.7, 4), "green": gen.rounded(0.5, 0.56, 4), "blue": gen.rounded(0.4, 0.48, 4)})),
        "illum_polarization": st.one_of(st.none(), pol, st.fixed_dictionaries({"red": pol, "green": pol, "blue": pol})),
        "noise_sd": st.one_of(st.none(), gen.rounded(0.001, 0.5, 4), st.fixed_dictionaries({"red": gen.rounded(0.01, 0.5, 4), "green": gen.rounded(0.01, 0.5, 4), "blue": gen.rounded(0.01, 0.5, 4)})),
    })


# ------------------------------------------------------------------------------------------ 1
def strat_h5(tier):
    return st.fixed_dictionaries({
        "shape": _shape, "spacing": _spacing, "origin": st.one_of(st.just([0.0, 0.0]), st.tuples(gen.rounded(-50, 50, 3), gen.rounded(-50, 50, 3)).map(list)),
        "z": st.one_of(st.just(0.0), gen.rounded(-10, 10, 3)), "seed": st.integers(0, 2 ** 31 - 1),
        "lo": st.sampled_from([0.0, -5.0, 1e6, 1e-9]), "span": st.sampled_from([1.0, 1e-6, 1e6]),
        "dtype": st.sampled_from(["float64", "float64", "float32", "int"]), "name": _names,
        "channels": st.sampled_from([None, None, ["red", "green"], ["green", "red", "blue"], ["blue", "red"], ["red"], ["green"]]),
        "meta": _meta(), "cycles": st.integers(1, 3), "ext": st.sampled_from([".h5", "", ".h5"]),
        "np_meta": st.sampled_from([None, None, None, "float32", "float16"]),
        "pol_dims": st.sampled_from([None, None, "vector_first"]),
        # between two cycles: a new image of another dtype derived from the reloaded one (keeping its metadata)
        "derive": st.sampled_from([None, None, "copy_data", "assign_values", "arithmetic"]),
    })


def run_h5(case):
    import holopy as hp
    case = dict(case)
    im = make_image(case)
    fp = det_fingerprint(im)
    labels = ["channels_%d" % len(case["channels"] or []), case["dtype"], "cycles_%d" % case["cycles"]]
    if case.get("np_meta") and any(isinstance(im.attrs.get(k), np.floating) and not isinstance(im.attrs.get(k), float) for k in ("medium_index", "illum_wavelen", "noise_sd")):
        labels.append("numpy_scalar_metadata_" + case["np_meta"])
    if tuple(getattr(im.attrs.get("illum_polarization"), "dims", ())) == ("vector", "illumination"):
        labels.append("polarization_dims_vector_first")
    msg = expected_per_channel(case, im)
    if msg:
        return Outcome(failure("per_channel_metadata_by_label", msg), True, labels)
    cur = im
    with tempfile.TemporaryDirectory() as td:
        for cyc in range(case["cycles"]):
            path = os.path.join(td, "stem%d%s" % (cyc, case["ext"]))
            if cyc == 1 and case.get("derive"):
                # the reloaded image (integer or float32 data) is processed into a float64 image: values / 3
                newvals = cur.values.astype(np.float64) / 3.0
                if case["derive"] == "copy_data":
                    cur = cur.copy(data=newvals)
                elif case["derive"] == "assign_values":
                    cur = cur.copy()
                    if cur.dtype == np.float64:
                        cur.values = newvals
                    else:
                        cur = cur.copy(data=newvals)
                else:
                    nm_ = cur.name
                    cur = cur / 3.0
                    cur.attrs = im.attrs
                    cur.name = nm_
                im = cur.copy()
                fp = det_fingerprint(im)
                labels.append("derived_" + case["derive"])
            try:
                hp.save(path, cur)
                cur = hp.load(path)
            except Exception as e:
                return Outcome(failure("h5_exception", "%s during HDF5 cycle %d: %s" % (type(e).__name__, cyc + 1, str(e)[:300]), exc=type(e).__name__), True, labels)
            if set(cur.dims) != set(im.dims):
                return Outcome(failure("h5_dims", "dims %r -> %r" % (im.dims, cur.dims)), True, labels)
            if tuple(cur.dims) != tuple(im.dims):
                return Outcome(failure("h5_dim_order", "dimension order %r -> %r" % (im.dims, cur.dims)), True, labels)
            if cur.dtype != im.dtype or not np.array_equal(cur.values, im.values):
                return Outcome(failure("h5_values", "values/dtype changed (%s -> %s)" % (im.dtype, cur.dtype)), True, labels)
            for cn in im.coords:
                if cn not in cur.coords or not np.array_equal(np.asarray(cur.coords[cn].values), np.asarray(im.coords[cn].values)):
                    return Outcome(failure("h5_coordinates", "coordinate %s changed: %r -> %r" % (cn, np.asarray(im.coords[cn].values)[:3].tolist(),
                                                                                                 np.asarray(cur.coords[cn].values)[:3].tolist() if cn in cur.coords else None)), True, labels)
            want_name = im.name if im.name is not None else "stem0"
            if cur.name != want_name:
                return Outcome(failure("h5_name", "name %r -> %r" % (want_name, cur.name)), True, labels)
            msg = attrs_equal(im, cur, "hdf5")
            if msg:
                return Outcome(failure("h5_metadata", msg), True, labels)
    if det_fingerprint(im) != fp:
        return Outcome(failure("input_mutated", "hp.save modified the image"), True, labels)
    md = case["meta"]
    nontrivial = bool(case["channels"]) or any(isinstance(v, dict) for v in md.values()) or case["shape"][0] != case["shape"][1]
    return Outcome(None, nontrivial, labels)


# ------------------------------------------------------------------------------------------ 2
def strat_tif(tier):
    return st.fixed_dictionaries({
        "shape": st.tuples(st.integers(2, 20), st.integers(2, 20)).map(list), "spacing": _spacing, "seed": st.integers(0, 2 ** 31 - 1),
        "lo": st.sampled_from([0.0, -2.0, 100.0]), "span": st.sampled_from([1.0, 0.01, 255.0, 1.0, 0.01, 255.0, 0.0]), "name": st.sampled_from([None, "holo", "my image"]),
        "np_meta": st.sampled_from([None, None, None, "float32"]),
        # colour images: all three channels or any two of them in any order (the exporter pads the missing colour)
        "channels": st.sampled_from([None, None, ["red", "green", "blue"], ["red", "green"], ["green", "red"], ["red", "blue"], ["blue", "red"],
                                     ["green", "blue"], ["blue", "green"], ["blue", "green", "red"]]),
        "meta": _meta(), "how": st.sampled_from(["hp.save", "save_image8", "save_image16", "save_image_float", "save_image8_unscaled", "save_image16_unscaled"]),
        # explicit (min, max) scaling interval for save_image, wider than the data by these fractions of its range
        "scaling": st.one_of(st.none(), st.none(), st.tuples(st.floats(0.0, 2.0), st.floats(0.0, 2.0)).map(list)),
    })


def run_tif(case):
    import holopy as hp
    from holopy.core.io import save_image, load_image
    if case["channels"] and case["how"] in ("save_image16", "save_image_float"):
        # documented: depths other than 8 bit may not be supported for every image type (PIL has no
        # 16-bit/float colour TIFF); colour export is exercised at 8 bit
        case = dict(case, how="save_image8")
    if case["channels"] and case["how"] == "save_image16_unscaled":
        case = dict(case, how="save_image8_unscaled")
    if case["span"] == 0.0:
        # a constant image: there is no range to place an explicit interval around
        case = dict(case, scaling=None)
    im = make_image(case)
    labels = [case["how"], "rgb" if case["channels"] else "grey"] + (["constant_image"] if case["span"] == 0.0 else [])
    fp = det_fingerprint(im)
    with tempfile.TemporaryDirectory() as td:
        path = os.path.join(td, "pic.tif")
        try:
            with warnings.catch_warnings():
                warnings.simplefilter("ignore")
                skw = {}
                widen = 1.0
                if case.get("scaling") is not None and case["how"] != "hp.save":
                    lo_, hi_ = float(im.values.min()), float(im.values.max())
                    span = max(hi_ - lo_, 1e-30)
                    skw = {"scaling": (lo_ - case["scaling"][0] * span, hi_ + case["scaling"][1] * span)}
                    widen = 1.0 + case["scaling"][0] + case["scaling"][1]
                    labels.append("explicit_scaling")
                if case["how"].endswith("_unscaled"):
                    # scaling=None on an image whose values do not exceed 1: the exporter stretches it to the
                    # full range of the integer format; the reloaded values are the originals within one step of 1/full
                    v = im.values
                    im = im.copy(data=(v - v.min()) / max(float(v.max() - v.min()), 1e-30) * 0.9 + 0.05)
                    fp = det_fingerprint(im)
                    nb = 8 if "8" in case["how"] else 16
                    save_image(path, im, scaling=None, depth=nb); bits = 8 if nb == 8 else 15
                    widen = 1.0 / 0.9
                    labels.append("unscaled_unit_range")
                elif case["how"] == "hp.save":
                    hp.save(path, im); bits = 8
                elif case["how"] == "save_image8":
                    save_image(path, im, depth=8, **skw); bits = 8
                elif case["how"] == "save_image16":
                    save_image(path, im, depth=16, **skw); bits = 15
                else:
                    save_image(path, im, depth="float", **skw); bits = None
                back = hp.load(path)
        except Exception as e:
            return Outcome(failure("tiff_exception", "%s during TIFF round trip (%s): %s" % (type(e).__name__, case["how"], str(e)[:300]), exc=type(e).__name__, how=case["how"]), True, labels)
        with warnings.catch_warnings(record=True) as w:
            warnings.simplefilter("always")
            try:
                raw = load_image(path, spacing=1.0, channel="all" if case["channels"] else None)
            except Exception as e:
                raw = None
        if raw is not None and not any("Metadata detected" in str(x.message) for x in w):
            return Outcome(failure("load_image_metadata_warning", "load_image on a HoloPy TIFF did not warn that metadata is ignored"), True, labels)
    if det_fingerprint(im) != fp:
        return Outcome(failure("input_mutated", "saving modified the image"), True, labels)
    a = im.transpose(*[d for d in ("z", "x", "y", "illumination") if d in im.dims]).values
    try:
        if case["channels"]:
            got_ch = [str(c) for c in back.illumination.values] if "illumination" in back.dims else []
            if sorted(got_ch) != sorted(case["channels"]):
                return Outcome(failure("tiff_channels", "image with channels %r reloads with channels %r" % (case["channels"], got_ch)), True, labels)
            back = back.sel(illumination=case["channels"])
        b = back.transpose(*[d for d in ("z", "x", "y", "illumination") if d in back.dims]).values
    except Exception as e:
        return Outcome(failure("tiff_structure", "reloaded TIFF has dims %r coords %r: %s" % (back.dims, list(back.coords), e)), True, labels)
    if a.shape != b.shape:
        return Outcome(failure("tiff_shape", "shape %r -> %r" % (a.shape, b.shape)), True, labels)
    rng_ = float(a.max() - a.min())
    if bits is None:
        tol = 1e-6 * max(rng_, 1e-30) * widen
    else:
        # one quantization step of the scaling interval (the data's own range unless an interval was given)
        tol = rng_ * widen / (2 ** bits - 1) * 0.51 + 1e-12 * abs(a).max()
        if case["how"].endswith("_unscaled"):
            tol = 0.51 / (2 ** bits - 1) + 1e-12      # the interval is (0, 1) whatever the data's own range
    err = float(np.abs(a - b).max())
    if not (err <= tol * TOLX):
        return Outcome(failure("tiff_values", "values differ by %.4g after %s%s (range %.4g, allowed quantization %.4g)"
                               % (err, case["how"], " with an explicit scaling interval" if widen > 1.0 else "", rng_, tol), how=case["how"], explicit_scaling=widen > 1.0), True, labels)
    for cn in ("x", "y"):
        if not np.allclose(back.coords[cn].values, im.coords[cn].values - im.coords[cn].values[0], rtol=1e-12, atol=0):
            return Outcome(failure("tiff_spacing", "pixel spacing along %s not preserved: %r vs %r" % (cn, back.coords[cn].values[:3].tolist(), im.coords[cn].values[:3].tolist())), True, labels)
    want_name = im.name if im.name is not None else "pic"
    if back.name != want_name:
        return Outcome(failure("tiff_name", "name %r -> %r" % (want_name, back.name)), True, labels)
    msg = attrs_equal(im, back, "tiff")
    if msg:
        return Outcome(failure("tiff_metadata", msg, how=case["how"]), True, labels)
    return Outcome(None, True, labels, metrics={"tiff_err_over_tol_" + case["how"]: err / tol})


# ------------------------------------------------------------------------------------------ 3,4
def strat_raster(tier):
    return st.fixed_dictionaries({
        "shape": st.tuples(st.integers(1, 20), st.integers(1, 20)).map(list), "spacing": st.one_of(gen.logu(1e-3, 1e3).map(lambda v: [v, None]), _spacing),
        "seed": st.integers(0, 2 ** 31 - 1), "mode": st.sampled_from(["L", "L", "RGB", "I;16"]), "fmt": st.sampled_from(["png", "tif", "bmp"]),
        "channel": st.sampled_from([None, 0, 1, 2, [0, 2], [2, 0, 1], "all", 3]), "k": st.integers(1, 6), "perm_seed": st.integers(0, 999),
        "name": st.sampled_from([None, "custom"]), "what": st.sampled_from(["load_image", "load_average"]),
    })


def run_raster(case):
    import holopy as hp
    from PIL import Image
    from holopy.core.io import load_image, load_average
    from holopy.core.errors import BadImage, LoadError
    nx, ny = case["shape"]
    mode, fmt = case["mode"], case["fmt"]
    if mode == "I;16" and fmt != "tif":
        fmt = "tif"
    if mode == "I;16" and fmt == "bmp":
        fmt = "tif"
    rng = np.random.RandomState(case["seed"] % (2 ** 31))
    sp = case["spacing"]
    spacing = sp[0] if sp[1] is None else (sp[0], sp[1])
    sx, sy = (sp[0], sp[0]) if sp[1] is None else (sp[0], sp[1])
    labels = [case["what"], mode, fmt, "channel_%s" % (case["channel"] if not isinstance(case["channel"], list) else "list")]

    def arr():
        if mode == "L":
            return rng.randint(0, 256, size=(nx, ny)).astype(np.uint8)
        if mode == "RGB":
            return rng.randint(0, 256, size=(nx, ny, 3)).astype(np.uint8)
        return rng.randint(0, 65536, size=(nx, ny)).astype(np.uint16)
    with tempfile.TemporaryDirectory() as td:
        if case["what"] == "load_image":
            a = arr()
            path = os.path.join(td, "raster." + fmt)
            Image.fromarray(a, mode=None if mode != "I;16" else "I;16").save(path)
            ch = case["channel"]
            try:
                with warnings.catch_warnings(record=True) as w:
                    warnings.simplefilter("always")
                    im = load_image(path, spacing=spacing, channel=ch, name=case["name"])
            except BadImage:
                if a.ndim == 3 and ch is None:
                    return Outcome(None, True, labels + ["colour_without_channel_refused"])
                return Outcome(failure("load_image_badimage", "BadImage for mode %s channel %r" % (mode, ch)), True, labels)
            except LoadError:
                chmax = max(ch) if isinstance(ch, list) else ch
                if a.ndim == 3 and isinstance(chmax, int) and chmax >= 3:
                    return Outcome(None, True, labels + ["channel_out_of_range_refused"])
                return Outcome(failure("load_image_loaderror", "LoadError for mode %s channel %r" % (mode, ch)), True, labels)
            if a.ndim == 3 and ch is None:
                return Outcome(failure("colour_without_channel_accepted", "colour image loaded without a channel"), True, labels)
            if a.ndim == 3 and isinstance(ch, int) and ch >= 3:
                return Outcome(failure("channel_out_of_range_accepted", "channel %r of an RGB image accepted" % ch), True, labels)
            if a.ndim == 2 and ch is not None and ch != "all" and not any("Not a color image" in str(x.message) for x in w):
                return Outcome(failure("greyscale_channel_warning", "greyscale image with channel=%r loaded without a warning" % (ch,)), True, labels)
            # expected planes
            if a.ndim == 2:
                want = a.astype(float)[None]
                want_labels = None
            else:
                idx = list(range(3)) if ch == "all" else (ch if isinstance(ch, list) else [ch])
                want = a[:, :, idx].astype(float)[None] if len(idx) > 1 else a[:, :, idx[0]].astype(float)[None]
                want_labels = [["red", "green", "blue"][i] for i in idx] if len(idx) > 1 else None
            dims = ["z", "x", "y"] + (["illumination"] if want_labels else [])
            if set(im.dims) != set(dims):
                return Outcome(failure("load_image_dims", "dims %r, expected %r" % (im.dims, dims)), True, labels)
            got = im.transpose(*dims).values
            if got.shape != want.shape or not np.array_equal(got, want):
                return Outcome(failure("load_image_values", "pixel values/planes differ from the file (mode %s channel %r)" % (mode, ch)), True, labels)
            if want_labels and list(im.illumination.values) != want_labels:
                return Outcome(failure("load_image_channel_labels", "channel labels %r, expected %r" % (list(im.illumination.values), want_labels)), True, labels)
            if not (np.allclose(im.x.values, np.arange(nx) * sx, rtol=1e-14, atol=0) and np.allclose(im.y.values, np.arange(ny) * sy, rtol=1e-14, atol=0)):
                return Outcome(failure("load_image_coordinates", "pixel (i,j) is not at (i*sx, j*sy): x=%r y=%r" % (im.x.values[:3].tolist(), im.y.values[:3].tolist())), True, labels)
            if im.name != (case["name"] or "raster"):
                return Outcome(failure("load_image_name", "name %r" % im.name), True, labels)
            return Outcome(None, nx != ny or a.ndim == 3, labels)
        # ---- load_average
        k = case["k"]
        arrs, paths = [], []
        mode2 = "L" if mode == "RGB" else mode
        for i in range(k):
            if mode2 == "L":
                a = rng.randint(1, 256, size=(nx, ny)).astype(np.uint8)
            else:
                a = rng.randint(1, 65536, size=(nx, ny)).astype(np.uint16)
            p = os.path.join(td, "bg%02d.%s" % (i, "tif" if mode2 == "I;16" else fmt))
            Image.fromarray(a).save(p)
            arrs.append(a.astype(float)); paths.append(p)
        avg = load_average(paths, spacing=spacing, medium_index=1.33)
        stack = np.array(arrs)
        want = stack.mean(0)
        got = avg.transpose("z", "x", "y").values[0]
        if not (np.abs(got - want).max() <= 1e-12 * np.abs(want).max() * TOLX):
            return Outcome(failure("load_average_mean", "average differs from the pixelwise mean by %.3g" % np.abs(got - want).max()), True, labels)
        if k > 1:
            want_noise = float((stack.std(0) / stack.mean(0)).mean())
            gn = float(np.asarray(avg.attrs["noise_sd"]))
            if not (abs(gn - want_noise) <= 1e-10 * max(want_noise, 1e-12) * TOLX + 1e-14):
                return Outcome(failure("load_average_noise", "noise_sd %r, mean of pixelwise std/mean %r" % (gn, want_noise)), True, labels)
        elif avg.attrs.get("noise_sd") is not None:
            return Outcome(failure("load_average_noise_single", "single image gives noise_sd %r" % avg.attrs.get("noise_sd")), True, labels)
        perm = np.random.RandomState(case["perm_seed"]).permutation(k)
        avg2 = load_average([paths[i] for i in perm], spacing=spacing, medium_index=1.33)
        if np.abs(avg2.values - avg.values).max() > 1e-12 * np.abs(want).max():
            return Outcome(failure("load_average_order", "average depends on file order"), True, labels)
        if k > 1 and abs(float(np.asarray(avg2.attrs["noise_sd"])) - float(np.asarray(avg.attrs["noise_sd"]))) > 1e-10 * float(np.asarray(avg.attrs["noise_sd"])) + 1e-14:
            return Outcome(failure("load_average_order", "noise_sd depends on file order"), True, labels)
        if avg.attrs.get("medium_index") != 1.33:
            return Outcome(failure("load_average_metadata", "medium_index not recorded"), True, labels)
        # the same average taken on the grid of a reference image (same shape and pixel spacing, metadata from the image)
        from holopy.core.metadata import data_grid
        ref = data_grid(np.zeros((nx, ny)), spacing=spacing, medium_index=1.33, illum_wavelen=0.66, illum_polarization=(1, 0))
        if min(nx, ny) < 2:
            # the spacing of a reference image is read off its coordinates: one row or column has none
            return Outcome(None, True, labels)
        try:
            avg3 = load_average(paths, refimg=ref)
        except Exception as e:
            return Outcome(failure("load_average_refimg_exception", "load_average(refimg=...) raises %s: %s" % (type(e).__name__, str(e)[:200]), exc=type(e).__name__), True, labels)
        got3 = avg3.transpose("z", "x", "y").values[0]
        if got3.shape != want.shape or not (np.abs(got3 - want).max() <= 1e-12 * np.abs(want).max() * TOLX):
            return Outcome(failure("load_average_refimg_mean", "average on the grid of a reference image (spacing %r) differs from the pixelwise mean by %.3g"
                                   % (list(spacing) if not np.isscalar(spacing) else spacing, np.abs(got3 - want).max() if got3.shape == want.shape else float("nan"))), True, labels)
        if k > 1 and not (abs(float(np.asarray(avg3.attrs["noise_sd"])) - want_noise) <= 1e-10 * max(want_noise, 1e-12) * TOLX + 1e-14):
            return Outcome(failure("load_average_refimg_noise", "noise_sd with a reference image %r, expected %r" % (float(np.asarray(avg3.attrs["noise_sd"])), want_noise)), True, labels)
        labels.append("refimg")
        if not (np.allclose(avg.x.values, np.arange(nx) * sx, rtol=1e-14, atol=0) and np.allclose(avg.y.values, np.arange(ny) * sy, rtol=1e-14, atol=0)):
            return Outcome(failure("load_average_coordinates", "coordinates not i*spacing"), True, labels)
        # ---- history: the averaged image (whose noise level load_average stores array-valued) through HDF5
        import holopy as hp
        h5 = os.path.join(td, "average.h5")
        try:
            hp.save(h5, avg)
            back = hp.load(h5)
        except Exception as e:
            return Outcome(failure("h5_exception", "%s when the result of load_average (%d files) is saved to HDF5 and reloaded: %s"
                                   % (type(e).__name__, k, str(e)[:200]), exc=type(e).__name__, after="load_average"), True, labels)
        if tuple(back.dims) != tuple(avg.dims) or not np.array_equal(back.values, avg.values):
            return Outcome(failure("h5_values", "averaged image changes through HDF5"), True, labels)
        msg = attrs_equal(avg, back, "hdf5 after load_average")
        if msg:
            return Outcome(failure("h5_metadata", msg, after="load_average"), True, labels)
        return Outcome(None, k >= 2, labels + ["average_through_hdf5"])


# ------------------------------------------------------------------------------------------ 5
def strat_meta(tier):
    pol = gen.polarization(True)
    upd = st.fixed_dictionaries({
        "medium_index": st.one_of(st.none(), gen.rounded(1.0, 1.7, 4)),
        "illum_wavelen": st.one_of(st.none(), gen.rounded(0.3, 1.1, 4), st.fixed_dictionaries({"red": gen.rounded(0.6, 0.7, 4), "green": gen.rounded(0.5, 0.56, 4)})),
        "illum_polarization": st.one_of(st.none(), pol, st.fixed_dictionaries({"red": pol, "green": pol})),
        "noise_sd": st.one_of(st.none(), gen.rounded(0.001, 0.5, 4), st.fixed_dictionaries({"red": gen.rounded(0.01, 0.5, 4), "green": gen.rounded(0.01, 0.5, 4)})),
    })
    return st.fixed_dictionaries({"shape": _shape, "spacing": _spacing, "seed": st.integers(0, 2 ** 31 - 1), "lo": st.just(0.5), "span": st.just(1.0),
                                  "name": _names, "channels": st.sampled_from([None, ["red", "green"], ["green", "red"]]), "meta": _meta(), "upd": upd})


def run_meta(case):
    import xarray as xr
    from holopy.core.metadata import update_metadata, copy_metadata
    im = make_image(case)
    fp = det_fingerprint(im)
    chans = case["channels"]
    upd = {}
    for k, v in case["upd"].items():
        if isinstance(v, dict) and not chans:
            v = list(v.values())[0]
        if k == "illum_polarization" and v is not None:
            # the (x, y) pair, or the same vector with an explicit zero z component, as tuple, list or array
            form = case["seed"] % 4

            def shape_(p):
                return [tuple(p), (p[0], p[1], 0.0), [p[0], p[1], 0.0], np.array([p[0], p[1], 0.0])][form]
            v = {c: shape_(p) for c, p in v.items()} if isinstance(v, dict) else shape_(v)
        upd[k] = v
    labels = ["channels_%d" % len(chans or []), "fields_%d" % sum(v is not None for v in upd.values())]
    new = update_metadata(im, **upd)
    if new is im:
        return Outcome(failure("update_returns_same_object", "update_metadata returned its input object"), True, labels)
    if det_fingerprint(im) != fp:
        return Outcome(failure("input_mutated", "update_metadata modified the original"), True, labels)
    if not np.array_equal(new.values, im.values) or any(not np.array_equal(np.asarray(new.coords[c].values), np.asarray(im.coords[c].values)) for c in im.coords) or new.name != im.name:
        return Outcome(failure("update_changes_data", "update_metadata changed values, coordinates or name"), True, labels)
    for k, v in upd.items():
        got = new.attrs.get(k)
        old = im.attrs.get(k)
        if v is None:
            same = (got is None and old is None) or (isinstance(got, xr.DataArray) and isinstance(old, xr.DataArray) and got.equals(old)) or (
                not isinstance(got, xr.DataArray) and not isinstance(old, xr.DataArray) and got == old)
            if not same:
                return Outcome(failure("update_touches_unnamed_field", "field %s changed although it was not named: %r -> %r" % (k, old, got), field=k), True, labels)
            continue
        if k == "illum_polarization":
            def unit(p):
                p = np.array([p[0], p[1], 0.0]); return p / np.sqrt((p ** 2).sum())
            if isinstance(v, dict):
                for c, p in v.items():
                    g = got.sel(illumination=c).values
                    if np.abs(g - unit(p)).max() > 1e-15:
                        return Outcome(failure("polarization_not_normalised", "channel %s polarization stored as %r, expected unit vector %r" % (c, g.tolist(), unit(p).tolist())), True, labels)
            else:
                if np.abs(np.asarray(got.values) - unit(v)).max() > 1e-15:
                    return Outcome(failure("polarization_not_normalised", "polarization stored as %r, expected %r" % (got.values.tolist(), unit(v).tolist())), True, labels)
                if list(got.vector.values) != ["x", "y", "z"]:
                    return Outcome(failure("polarization_labels", "vector labels %r" % list(got.vector.values)), True, labels)
        elif isinstance(v, dict):
            for c, val in v.items():
                if float(got.sel(illumination=c)) != val:
                    return Outcome(failure("update_value", "field %s channel %s = %r, expected %r" % (k, c, float(got.sel(illumination=c)), val), field=k), True, labels)
        elif got != v:
            return Outcome(failure("update_value", "field %s = %r, expected %r" % (k, got, v), field=k), True, labels)
    # copy_metadata: values of data, attrs/name of old
    other = im.copy(data=im.values * 2 + 1)
    other.attrs = {}
    other.name = "other"
    cm = copy_metadata(new, other)
    if not np.array_equal(cm.values, other.values) or cm.name != new.name:
        return Outcome(failure("copy_metadata", "copy_metadata must keep the data of `data` and the name of `old`"), True, labels)
    msg = attrs_equal(new, cm, "copy_metadata")
    if msg:
        return Outcome(failure("copy_metadata", msg), True, labels)
    return Outcome(None, bool(chans) or any(isinstance(v, dict) for v in upd.values()), labels)


SUBCHECKS = [
    Sub("hdf5_round_trip", strat_h5, run_h5, 1600, 30000,
        "images 1..24 per side, float64/float32/int, anisotropic spacing over 6 decades, shifted origin, z != 0, names incl. "
        "spaces/unicode/None (-> file stem), 0/2/3 channels in non-sorted label order, metadata scalar / None / per-channel "
        "dict for wavelength, polarization, noise; 1-3 consecutive save/load cycles: values and dtype bit-equal, every "
        "coordinate bit-equal, dims in order, name, each attr equal by label; non-trivial = multi-channel, dict metadata or non-square",
        tolerances={"equality": "bitwise"}),
    Sub("tiff_round_trip", strat_tif, run_tif, 800, 15000,
        "greyscale and red/green/blue images through hp.save('.tif') and save_image(depth 8 | 16 | 'float'): values within "
        "the stated quantization, spacing, name and metadata preserved; load_image on such a file warns that metadata is ignored",
        tolerances={"8bit": "(max-min)/255*0.51", "16bit": "(max-min)/32767*0.51", "float": "1e-6*(max-min)"}),
    Sub("raster_and_average", strat_raster, run_raster, 2000, 40000,
        "PNG/TIFF/BMP written with PIL from generated uint8 / RGB / uint16 arrays: load_image places pixel (i,j) at "
        "(i*sx, j*sy) with the requested planes and labels (int, list, 'all'), greyscale+channel warns, colour without channel "
        "-> BadImage, channel out of range -> LoadError; load_average of 1-6 files = pixelwise mean, noise_sd = mean of "
        "population std/mean, independent of file order",
        tolerances={"mean_rel": 1e-12, "noise_rel": 1e-10}),
    Sub("metadata_edits", strat_meta, run_meta, 3000, 60000,
        "update_metadata with any subset of fields (scalar, per-channel dict) on single- and 2-channel images: new object, "
        "only the named fields differ, polarization stored as unit (x,y,0) vector per channel, original untouched; "
        "copy_metadata keeps data values and takes attrs/name",
        tolerances={"unit_vector": 1e-15}),
]
