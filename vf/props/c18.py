"""C18 — image-processing tools satisfy their defining identities."""
import itertools
import math

import numpy as np
from hypothesis import strategies as st

from ..runner import Sub, Outcome, failure, TOLX
from .. import gen
from .c01 import det_fingerprint

PROPERTY = "C18"
ASSUMPTIONS = [
    "images are (z=1, x, y) DataArrays from the library's constructor with metadata; values from a seeded generator",
    "zero_filter identities are asserted for isolated dead pixels (no dead 4-neighbour), as the property states",
    "centre-finder domain (calibrated, see evidence notes): Mie holograms of single spheres with resolved fringes; "
    "outside that domain errors are reported as a distribution, not judged",
]


def image(shape, seed, lo=0.5, hi=2.0, spacing=(0.1, 0.1), origin=(0.0, 0.0), meta=True, name="im", dtype=float, extra=None):
    from holopy.core.metadata import data_grid
    rng = np.random.RandomState(seed % (2 ** 31))
    if extra == "channels2" or extra == "channels3":
        nch = int(extra[-1])
        a = rng.uniform(lo, hi, size=tuple(shape) + (nch,))
        kw = dict(medium_index=1.33, illum_wavelen=0.66, illum_polarization=(1, 0), noise_sd=0.07) if meta else {}
        return data_grid(a, spacing=tuple(spacing), name=name, extra_dims={"illumination": ["red", "green", "blue"][:nch]}, **kw)
    if extra == "zstack":
        a = rng.uniform(lo, hi, size=(3,) + tuple(shape))
        kw = dict(medium_index=1.33, illum_wavelen=0.66, illum_polarization=(1, 0), noise_sd=0.07) if meta else {}
        return data_grid(a, spacing=tuple(spacing), name=name, z=[0.0, 1.0, 2.5], **kw)
    a = rng.uniform(lo, hi, size=tuple(shape))
    if dtype is not float:
        a = np.round(a * 100).astype(dtype) + 1
    kw = dict(medium_index=1.33, illum_wavelen=0.66, illum_polarization=(1, 0), noise_sd=0.07) if meta else {}
    d = data_grid(a, spacing=tuple(spacing), name=name, **kw)
    if origin[0] or origin[1]:
        d = d.assign_coords(x=d.x.values + origin[0], y=d.y.values + origin[1])
    return d


def meta_same(a, b):
    import xarray as xr
    if a.name != b.name or set(a.attrs) - {"_dummy"} != set(b.attrs) - {"_dummy"}:
        return "name/attr keys differ: %r %r vs %r %r" % (a.name, sorted(a.attrs), b.name, sorted(b.attrs))
    for k in a.attrs:
        va, vb = a.attrs[k], b.attrs[k]
        if isinstance(va, xr.DataArray) or isinstance(vb, xr.DataArray):
            if not (isinstance(va, xr.DataArray) and isinstance(vb, xr.DataArray) and va.equals(vb)):
                return "attr %s differs" % k
        elif va != vb:
            return "attr %s: %r vs %r" % (k, va, vb)
    return None


def coords_same(a, b):
    for cn in ("x", "y", "z"):
        if not np.array_equal(a.coords[cn].values, b.coords[cn].values):
            return "coordinate %s differs" % cn
    return None


_shape = st.tuples(st.integers(2, 14), st.integers(2, 14)).map(list)
_spacing = st.tuples(gen.logu(0.01, 10), gen.logu(0.01, 10)).map(list)
_origin = st.one_of(st.just([0.0, 0.0]), st.tuples(gen.rounded(-30, 30, 3), gen.rounded(-30, 30, 3)).map(list))


# ------------------------------------------------------------------------------------------ 1,2,5
def strat_ident(tier):
    return st.fixed_dictionaries({
        "shape": _shape, "spacing": _spacing, "origin": _origin, "seed": st.integers(0, 2 ** 31 - 1),
        "range": st.sampled_from([[0.5, 2.0], [1e-6, 1e-5], [1e5, 1e6], [-3.0, -1.0], [10.0, 10.5]]),
        "scale": gen.logu(1e-6, 1e6), "op": st.sampled_from(["normalize", "bg_correct", "detrend", "bg_mismatch"]),
        "plane": st.tuples(st.floats(-5, 5), st.floats(-5, 5), st.floats(-5, 5)).map(list),
        "df": st.booleans(), "raw_noise": st.booleans(), "meta": st.booleans(),
        "extra": st.sampled_from([None, None, "channels2", "channels3", "zstack"]),
        # camera counts as stored by the camera: unsigned integers (dark counts may exceed the signal in a pixel)
        "counts": st.sampled_from([None, None, "uint8", "uint16"]),
    })


def run_ident(case):
    from holopy.core.process import normalize, bg_correct, detrend
    from holopy.core.errors import BadImage
    from holopy.core.metadata import update_metadata
    op = case["op"]
    lo, hi = case["range"]
    extra = case.get("extra") if op == "normalize" else None
    im = image(case["shape"], case["seed"], lo, hi, case["spacing"], case["origin"], case["meta"], extra=extra)
    fp = det_fingerprint(im)
    labels = [op] + ([extra] if extra else [])
    if op == "normalize":
        n = normalize(im)
        m = float(n.values.mean())
        if not (abs(m - 1) <= 1e-12 * TOLX):
            return Outcome(failure("normalize_mean", "mean after normalize = %.17g" % m), True, labels)
        n2 = normalize(n)
        if not (np.abs(n2.values - n.values).max() <= 1e-12 * np.abs(n.values).max() * TOLX):
            return Outcome(failure("normalize_idempotent", "normalize(normalize(a)) != normalize(a)"), True, labels)
        ns = normalize(im * case["scale"])
        if not (np.abs(ns.values - n.values).max() <= 1e-12 * np.abs(n.values).max() * TOLX):
            return Outcome(failure("normalize_scale_invariance", "normalize(c*a) != normalize(a) for c=%r" % case["scale"]), True, labels)
        want = im.values / im.values.mean()
        if not (np.abs(n.values - want).max() <= 1e-12 * np.abs(want).max() * TOLX):
            return Outcome(failure("normalize_values", "normalize(a) != a / mean(a)"), True, labels)
        for r in (n,):
            msg = meta_same(im, r) or coords_same(im, r)
            if msg:
                return Outcome(failure("normalize_metadata", msg), True, labels)
    elif op == "bg_correct":
        lo2, hi2 = abs(lo), abs(hi)
        lo2, hi2 = min(lo2, hi2), max(lo2, hi2)
        raw = image(case["shape"], case["seed"], lo2, hi2, case["spacing"], case["origin"], case["meta"])
        bg = image(case["shape"], case["seed"] + 1, lo2 * 1.5, hi2 * 1.5, case["spacing"], case["origin"], case["meta"], name="bg")
        df = image(case["shape"], case["seed"] + 2, lo2 * 0.01, lo2 * 0.4, case["spacing"], case["origin"], case["meta"], name="df") if case["df"] else None
        if case["raw_noise"] is False and case["meta"]:
            raw = update_metadata(raw, noise_sd=None)
            raw.attrs["noise_sd"] = None
        if case["meta"]:
            bg = update_metadata(bg, noise_sd=0.2)
        if case.get("counts"):
            # the same kind of images as unsigned counts; the dark image is made comparable to the raw one so that
            # raw - dark is negative in some pixels
            dt = np.dtype(case["counts"])
            top = 200 if dt == np.uint8 else 40000
            rngc = np.random.RandomState(case["seed"] % (2 ** 31))
            shp = raw.values.shape
            raw = raw.copy(data=rngc.randint(5, top // 4, size=shp).astype(dt))
            bg = bg.copy(data=rngc.randint(top // 2, top, size=shp).astype(dt))
            if df is not None:
                df = df.copy(data=rngc.randint(0, top // 4, size=shp).astype(dt))
            labels.append("unsigned_counts")
        shift = [None, None, "x_one_pixel", "xy_fraction", "z_label"][case["seed"] % 5]
        if shift:
            # the background (and the dark image) taken with another origin: same shape and spacing, other coordinates
            sx_ = float(bg.x[1] - bg.x[0]) if bg.sizes["x"] > 1 else 1.0
            if shift == "x_one_pixel":
                bg = bg.assign_coords(x=bg.x.values + sx_)
            elif shift == "xy_fraction":
                bg = bg.assign_coords(x=bg.x.values + 0.3 * sx_, y=bg.y.values - 7.0 * sx_)
                if df is not None:
                    df = df.assign_coords(y=df.y.values + 2.0 * sx_)
            else:
                bg = bg.assign_coords(z=bg.z.values + 1.5)
            labels.append("background_other_origin")
        fr, fb = det_fingerprint(raw), det_fingerprint(bg)
        try:
            r = bg_correct(raw, bg, df)
        except Exception as e:
            if shift and type(e).__name__ == "BadImage":
                # refusing images whose coordinates differ is a clean outcome too (rounding of shifted coordinates can
                # change the spacing read off them)
                return Outcome(None, False, labels + ["refused_BadImage"], skipped=True)
            raise
        if r.values.shape != raw.values.shape:
            return Outcome(failure("bg_correct_shape", "bg_correct of images of shape %r returns shape %r (background with %s)" % (raw.values.shape, r.values.shape, shift or "the same coordinates"),
                                   shift=str(shift)), True, labels)
        d = df.values.astype(float) if df is not None else 0.0
        want = (raw.values.astype(float) - d) / (bg.values.astype(float) - d)
        if not (np.abs(r.values - want).max() <= 1e-14 * np.abs(want).max() * TOLX):
            return Outcome(failure("bg_correct_formula", "bg_correct != (raw-df)/(bg-df): max diff %.3g" % np.abs(r.values - want).max(), df=case["df"]), True, labels)
        one = bg_correct(raw, raw)
        if not np.all(one.values == 1.0):
            return Outcome(failure("bg_correct_self", "bg_correct(a, a) is not exactly 1 (max dev %.3g)" % np.abs(one.values - 1).max()), True, labels)
        if det_fingerprint(raw) != fr or det_fingerprint(bg) != fb:
            return Outcome(failure("input_mutated", "bg_correct modified its inputs"), True, labels)
        msg = coords_same(raw, r)
        if msg:
            return Outcome(failure("bg_correct_coords", msg), True, labels)
        if r.name != raw.name:
            return Outcome(failure("bg_correct_metadata", "name %r" % r.name), True, labels)
        if case["meta"]:
            want_noise = 0.2 if raw.attrs.get("noise_sd") is None else raw.attrs["noise_sd"]
            if r.attrs.get("noise_sd") != want_noise:
                return Outcome(failure("bg_correct_noise", "noise_sd %r, expected %r (raw had %r, bg 0.2)" % (r.attrs.get("noise_sd"), want_noise, raw.attrs.get("noise_sd"))), True, labels)
            for k in ("medium_index", "illum_wavelen"):
                if r.attrs.get(k) != raw.attrs.get(k):
                    return Outcome(failure("bg_correct_metadata", "attr %s lost" % k), True, labels)
    elif op == "bg_mismatch":
        other = image([case["shape"][0] + 1, case["shape"][1]], case["seed"], abs(lo) + 1, abs(hi) + 2, case["spacing"])
        other2 = image(case["shape"], case["seed"], abs(lo) + 1, abs(hi) + 2, [case["spacing"][0] * 2, case["spacing"][1]])
        pos = image(case["shape"], case["seed"], abs(lo) + 1, abs(hi) + 2, case["spacing"])
        for nm, o in (("shape", other), ("spacing", other2)):
            try:
                bg_correct(pos, o)
            except BadImage:
                continue
            except Exception as e:
                return Outcome(failure("bg_mismatch_exception", "%s mismatch raises %s, documented BadImage" % (nm, type(e).__name__), which=nm), True, labels)
            return Outcome(failure("bg_mismatch_accepted", "%s mismatch accepted" % nm, which=nm), True, labels)
    else:
        a, b, c = case["plane"]
        X, Y = np.meshgrid(np.arange(case["shape"][0]), np.arange(case["shape"][1]), indexing="ij")
        plane = (a * X + b * Y + c)[None]
        pim = im.copy(data=plane * (abs(hi) + abs(lo)))
        dp = detrend(pim)
        sc = max(np.abs(pim.values).max(), 1e-300)
        if not (np.abs(dp.values).max() <= 1e-9 * sc * TOLX):
            return Outcome(failure("detrend_plane", "detrend(plane) leaves %.3g of scale %.3g" % (np.abs(dp.values).max(), sc)), True, labels)
        d1 = detrend(im)
        d2 = detrend(im + pim)
        sc = max(np.abs(im.values).max(), np.abs(pim.values).max())
        if not (np.abs(d1.values - d2.values).max() <= 1e-9 * sc * TOLX):
            return Outcome(failure("detrend_invariance", "detrend(img+plane) != detrend(img): %.3g" % np.abs(d1.values - d2.values).max()), True, labels)
        msg = meta_same(im, d1) or coords_same(im, d1)
        if msg:
            return Outcome(failure("detrend_metadata", msg), True, labels)
    if det_fingerprint(im) != fp:
        return Outcome(failure("input_mutated", "%s modified its input" % op), True, labels)
    return Outcome(None, case["shape"][0] != case["shape"][1] or any(case["origin"]), labels)


# ------------------------------------------------------------------------------------------ 3
def enum_crops(tier):
    cases = []
    for nx, ny in ((4, 4), (5, 7), (8, 6), (9, 9), (12, 12)):
        for size in range(2, min(nx, ny) + 1, 2):
            for cx in range(size // 2, nx - size // 2 + 1):
                for cy in range(size // 2, ny - size // 2 + 1):
                    cases.append({"shape": [nx, ny], "center": [cx, cy], "size": size, "spacing": [0.1, 0.25], "origin": [1.5, -2.0],
                                  "seed": nx * 100 + ny, "frac": [0.0, 0.0], "form": "int"})
    return cases


def strat_crop(tier):
    return st.fixed_dictionaries({"shape": st.tuples(st.integers(2, 40), st.integers(2, 40)).map(list),
                                  "center": st.tuples(st.floats(0, 1), st.floats(0, 1)).map(list), "size": st.integers(1, 20),
                                  "spacing": _spacing, "origin": _origin, "seed": st.integers(0, 2 ** 31 - 1),
                                  "frac": st.tuples(st.floats(-0.49, 0.49), st.floats(-0.49, 0.49)).map(list),
                                  "form": st.sampled_from(["int", "float", "tuple_shape"])})


def run_crop(case):
    from holopy.core.process import subimage
    nx, ny = case["shape"]
    im = image(case["shape"], case["seed"], 0.5, 2.0, case["spacing"], case["origin"])
    fp = det_fingerprint(im)
    if isinstance(case["center"][0], float):
        size = 2 * max(1, min(case["size"], min(nx, ny) // 2))
        cx = size // 2 + int(case["center"][0] * (nx - size)); cy = size // 2 + int(case["center"][1] * (ny - size))
    else:
        size = case["size"]; cx, cy = case["center"]
    labels = [case["form"], "size_%s" % ("full" if size == min(nx, ny) else "part")]
    center = (cx, cy) if case["form"] != "float" else (cx + case["frac"][0], cy + case["frac"][1])
    shape = size if case["form"] != "tuple_shape" else (size, size)
    try:
        sub = subimage(im, center, shape)
    except AssertionError as e:
        return Outcome(failure("subimage_tuple_shape", "subimage(img, centre, (sx, sy)) raises AssertionError although the shape is documented as int or (int, int)"), True, labels)
    if sub.sizes["x"] != size or sub.sizes["y"] != size:
        return Outcome(failure("subimage_shape", "requested %d, got %r (centre %r, image %r)" % (size, dict(sub.sizes), center, case["shape"])), True, labels)
    x0, y0 = cx - size // 2, cy - size // 2
    want = im.isel(x=slice(x0, x0 + size), y=slice(y0, y0 + size))
    if not np.array_equal(sub.transpose(*want.dims).values, want.values):
        return Outcome(failure("subimage_values", "retained pixels do not keep their values"), True, labels)
    for cn in ("x", "y"):
        if not np.array_equal(sub.coords[cn].values, want.coords[cn].values):
            return Outcome(failure("subimage_coordinates", "retained pixels do not keep their physical %s coordinates" % cn), True, labels)
    msg = meta_same(im, sub)
    if msg:
        return Outcome(failure("subimage_metadata", msg), True, labels)
    if det_fingerprint(im) != fp:
        return Outcome(failure("input_mutated", "subimage modified its input"), True, labels)
    return Outcome(None, size < min(nx, ny), labels)


# ------------------------------------------------------------------------------------------ 4
def enum_dead(tier):
    cases = []
    for nx, ny in ((3, 3), (4, 5), (6, 6)):
        for i in range(nx):
            for j in range(ny):
                cases.append({"shape": [nx, ny], "dead": [[i, j]], "seed": 7 * nx + ny, "spacing": [0.2, 0.2], "origin": [0.0, 0.0], "value": 0.0})
    return cases


def strat_dead(tier):
    return st.fixed_dictionaries({"shape": st.tuples(st.integers(3, 16), st.integers(3, 16)).map(list),
                                  "dead": st.lists(st.tuples(st.floats(0, 1), st.floats(0, 1)).map(list), min_size=0, max_size=5),
                                  "seed": st.integers(0, 2 ** 31 - 1), "spacing": _spacing, "origin": _origin,
                                  "value": st.sampled_from([0.0, 0.0, -0.0]),
                                  # camera counts: integer-typed images are loaded by data_grid as they are
                                  "dtype": st.sampled_from(["float", "float", "uint8", "uint16", "int64"])})


def run_dead(case):
    from holopy.core.process import zero_filter
    from holopy.core.errors import BadImage
    nx, ny = case["shape"]
    dt = case.get("dtype", "float")
    im = image(case["shape"], case["seed"], 0.5, 2.0, case["spacing"], case["origin"], dtype=float if dt == "float" else np.dtype(dt))
    dead = []
    for d in case["dead"]:
        i, j = (d if isinstance(d[0], int) else (min(nx - 1, int(d[0] * nx)), min(ny - 1, int(d[1] * ny))))
        if (i, j) not in dead and all(abs(i - a) + abs(j - b) > 1 for a, b in dead):     # keep them isolated
            dead.append((i, j))
    vals = im.values.copy()
    for i, j in dead:
        vals[0, i, j] = case["value"]
    im = im.copy(data=vals)
    fp = det_fingerprint(im)
    corners = {(0, 0), (0, ny - 1), (nx - 1, 0), (nx - 1, ny - 1)}
    labels = ["dead_%d" % len(dead)] + (["integer_counts"] if dt != "float" else [])
    has_corner = any(d in corners for d in dead)
    try:
        out = zero_filter(im)
    except BadImage:
        if has_corner:
            return Outcome(None, True, labels + ["corner_refused"])
        return Outcome(failure("zero_filter_refused", "BadImage raised although no corner pixel is dead: dead=%r shape=%r" % (dead, case["shape"])), True, labels)
    if has_corner:
        return Outcome(failure("zero_filter_corner_accepted", "image with a dead corner accepted: dead=%r" % (dead,)), True, labels)
    o = out.transpose("z", "x", "y").values
    mask = np.ones((nx, ny), bool)
    for i, j in dead:
        mask[i, j] = False
    if not np.array_equal(o[0][mask], vals[0][mask]):
        return Outcome(failure("zero_filter_touches_positive", "positive pixels were changed (max %.3g)" % np.abs(o[0][mask] - vals[0][mask]).max()), True, labels)
    for i, j in dead:
        v = vals[0].astype(float)
        edge_x = i in (0, nx - 1); edge_y = j in (0, ny - 1)
        if not edge_x and not edge_y:
            want = (v[i - 1, j] + v[i + 1, j] + v[i, j - 1] + v[i, j + 1]) / 4; kind = "interior"
        elif edge_x:
            want = (v[i, j - 1] + v[i, j + 1]) / 2; kind = "edge"
        else:
            want = (v[i - 1, j] + v[i + 1, j]) / 2; kind = "edge"
        if not (abs(o[0, i, j] - want) <= 1e-12 * abs(want) * TOLX):
            return Outcome(failure("zero_filter_value", "%s dead pixel (%d,%d) -> %.15g, expected mean of neighbours %.15g" % (kind, i, j, o[0, i, j], want), kind=kind), True, labels)
        labels.append(kind)
    msg = meta_same(im, out) or coords_same(im, out)
    if msg:
        return Outcome(failure("zero_filter_metadata", msg), True, labels)
    if det_fingerprint(im) != fp:
        return Outcome(failure("input_mutated", "zero_filter modified its input"), True, labels)
    return Outcome(None, len(dead) >= 1, labels)


# ------------------------------------------------------------------------------------------ 6
def strat_acc(tier):
    return st.fixed_dictionaries({"shape": st.tuples(st.integers(1, 6), st.integers(1, 6)).map(list),
                                  "k": st.integers(0, 12), "seed": st.integers(0, 2 ** 31 - 1), "perm_seed": st.integers(0, 1000),
                                  "range": st.sampled_from([[0.5, 2.0], [1e5, 1e5 + 1], [-1.0, 1.0], [1e-8, 2e-8]]),
                                  "kind": st.sampled_from(["images", "arrays", "scalars"])})


def run_acc(case):
    from holopy.core.io.io import Accumulator
    k = case["k"]
    lo, hi = case["range"]
    labels = [case["kind"], "k%d" % k]
    if case["kind"] == "images":
        items = [image(case["shape"], case["seed"] + i, lo, hi) for i in range(k)]
        arrs = [it.values for it in items]
    elif case["kind"] == "arrays":
        rng = np.random.RandomState(case["seed"] % (2 ** 31))
        items = [rng.uniform(lo, hi, size=tuple(case["shape"])) for _ in range(k)]
        arrs = items
    else:
        rng = np.random.RandomState(case["seed"] % (2 ** 31))
        items = [float(rng.uniform(lo, hi)) for _ in range(k)]
        arrs = [np.array(v) for v in items]
    acc = Accumulator()
    if k == 0:
        if acc.mean() != 0.0 or acc.std() is not None:
            return Outcome(failure("accumulator_empty", "empty accumulator gives mean %r std %r (documented 0.0, None)" % (acc.mean(), acc.std())), True, labels)
        return Outcome(None, False, labels)
    scale = max(abs(lo), abs(hi))
    for n, it in enumerate(items, 1):
        before = it.values.copy() if hasattr(it, "values") else np.array(it, copy=True)
        acc.push(it)
        stack = np.array(arrs[:n])
        m = np.asarray(getattr(acc.mean(), "values", acc.mean()))
        s = np.asarray(getattr(acc.std(), "values", acc.std()))
        if not (np.abs(m - stack.mean(0)).max() <= 1e-10 * scale * TOLX):
            return Outcome(failure("accumulator_mean", "after %d pushes mean differs from the batch mean by %.3g" % (n, np.abs(m - stack.mean(0)).max())), True, labels)
        if not (np.abs(s - stack.std(0)).max() <= 1e-10 * scale * TOLX + 1e-8 * (hi - lo)):
            return Outcome(failure("accumulator_std", "after %d pushes std differs from the batch population std by %.3g" % (n, np.abs(s - stack.std(0)).max())), True, labels)
        after = it.values if hasattr(it, "values") else np.array(it)
        if not np.array_equal(before, after):
            return Outcome(failure("accumulator_mutates_input", "push() modified the pushed item (push #%d)" % n), True, labels)
    # order independence
    perm = np.random.RandomState(case["perm_seed"]).permutation(k)
    acc2 = Accumulator()
    for i in perm:
        acc2.push(items[i])
    m1 = np.asarray(getattr(acc.mean(), "values", acc.mean())); m2 = np.asarray(getattr(acc2.mean(), "values", acc2.mean()))
    s1 = np.asarray(getattr(acc.std(), "values", acc.std())); s2 = np.asarray(getattr(acc2.std(), "values", acc2.std()))
    if not (np.abs(m1 - m2).max() <= 1e-10 * scale * TOLX) or not (np.abs(s1 - s2).max() <= 1e-10 * scale * TOLX + 1e-8 * (hi - lo)):
        return Outcome(failure("accumulator_order", "mean/std depend on the order of pushes"), True, labels)
    if case["kind"] == "images":
        msg = meta_same(items[0], acc.mean())
        if msg:
            return Outcome(failure("accumulator_metadata", "running mean lost the image metadata: " + msg), True, labels)
    return Outcome(None, k >= 3, labels)


# ------------------------------------------------------------------------------------------ 7
def strat_center(tier):
    return st.fixed_dictionaries({
        "n": st.integers(60, 160), "fx": st.floats(0.2, 0.8), "fy": st.floats(0.2, 0.8),
        # second side of a non-square detector (None: square)
        "n2": st.one_of(st.none(), st.integers(60, 160)),
        "x": gen.logu(3.0, 12.0), "m": gen.rounded(1.1, 1.35, 3), "fz": st.floats(0.0, 1.0), "outside": st.integers(0, 9),
        "sp": gen.rounded(0.15, 0.5, 3), "order": st.sampled_from(["xyz", "zxy"]),
        "o": gen.optics(False, pol=st.sampled_from([[1.0, 0.0], [0.0, 1.0]])),
    })


def run_center(case):
    import holopy as hp
    from holopy.scattering import calc_holo, Sphere, Mie
    from holopy.core.process import center_find
    from holopy.core.prior import make_center_priors, Gaussian, Uniform
    o = case["o"]
    lam = o["wl"] / o["nm"]
    k = 2 * math.pi / lam
    n = case["n"]
    sp = case["sp"] * lam
    n2 = case.get("n2") or n
    det = hp.detector_grid((n, n2), sp)
    cx, cy = case["fx"] * (n - 1), case["fy"] * (n2 - 1)
    r = case["x"] / k
    # calibrated domain (survey of 3000 cases, see DESIGN): the heuristic needs resolved fringes; with
    # N_near = (distance to the nearest edge)^2 / (lambda z) >= 2 rings on the nearest side the observed
    # maximum error is 0.44 px (p99 0.36 px).  k z is constructed inside that domain for 9 of 10 cases; the
    # remaining ones are measured and reported only.
    near = min(min(case["fx"], 1 - case["fx"]) * (n - 1), min(case["fy"], 1 - case["fy"]) * (n2 - 1)) * case["sp"]      # in wavelengths
    kz_hi = min(300.0, math.pi * near ** 2 - case["x"])          # N_near >= 2
    kz_lo = 40.0
    in_domain = kz_hi > kz_lo and case["outside"] != 0
    if in_domain:
        kz = kz_lo + case["fz"] * (kz_hi - kz_lo)
    else:
        kz = max(kz_lo, kz_hi, 30.0) * (1.2 + 3 * case["fz"])
        if (near ** 2) / ((kz + case["x"]) / (2 * math.pi)) >= 2:
            in_domain = True
    case = dict(case, kz=kz)
    s = Sphere(n=case["m"] * o["nm"], r=r, center=(cx * sp, cy * sp, r + kz / k))
    holo = calc_holo(det, s, theory=Mie(), **gen.optics_kwargs(o))
    if case["order"] == "zxy":
        holo = holo.transpose("z", "x", "y")
    c = center_find(holo)
    err = math.hypot(c[0] - cx, c[1] - cy)
    labels = ["order_" + case["order"], "n_%d" % (n // 40 * 40), "square" if n2 == n else "non_square"]
    if not in_domain:
        return Outcome(None, False, labels + ["outside_calibrated_domain"], skipped=True, metrics={"center_error_px_outside_domain": err})
    met = {"center_error_px": err}
    if not (err <= 1.0 * TOLX):
        return Outcome(failure("center_find", "centre found at (%.2f, %.2f), true (%.2f, %.2f): error %.2f px (detector %d px, x=%.3g, kz=%.4g)" % (
            c[0], c[1], cx, cy, err, n, case["x"], case["kz"]), order=case["order"]), True, labels, metrics=met)
    pri = make_center_priors(holo)
    spv = sp
    if not (isinstance(pri[0], Gaussian) and isinstance(pri[1], Gaussian) and isinstance(pri[2], Uniform)):
        return Outcome(failure("center_priors_types", "make_center_priors returned %r" % [type(p).__name__ for p in pri]), True, labels)
    want = [c[0] * spv + float(holo.x[0]), c[1] * spv + float(holo.y[0])]
    if abs(pri[0].mu - want[0]) > 1e-9 * n * spv or abs(pri[1].mu - want[1]) > 1e-9 * n * spv or abs(pri[0].sd - spv) > 1e-12 or abs(pri[1].sd - spv) > 1e-12:
        return Outcome(failure("center_priors_values", "priors mu=(%r,%r) sd=(%r,%r), expected centre*spacing+origin=%r sd=%r" % (
            pri[0].mu, pri[1].mu, pri[0].sd, pri[1].sd, want, spv)), True, labels)
    ext = max(n, n2) * spv
    if pri[2].lower_bound != 0 or abs(pri[2].upper_bound - 5 * ext) > 1e-9 * ext:
        return Outcome(failure("center_priors_z", "z prior [%r, %r], documented [0, 5*extent=%r]" % (pri[2].lower_bound, pri[2].upper_bound, 5 * ext)), True, labels)
    return Outcome(None, True, labels, metrics=met)


SUBCHECKS = [
    Sub("normalize_bg_detrend", strat_ident, run_ident, 4000, 80000,
        "images 2..14 per side (anisotropic spacing, shifted origin, values over 12 decades incl. negative means): "
        "normalize (also on 2-3 channel images and 3-plane z-stacks) mean 1 / equals a/mean(a) / idempotent / scale-invariant / keeps metadata; bg_correct == (raw-df)/(bg-df), bg_correct(a,a)==1 "
        "exactly, noise_sd inherited from bg only when raw's is None, mismatched shape/spacing -> BadImage; detrend(plane)=0 "
        "and detrend(img+plane)=detrend(img)",
        tolerances={"normalize": 1e-12, "bg_formula": 1e-14, "detrend": 1e-9}),
    Sub("subimage", strat_crop, run_crop, 3000, 60000,
        "bounded-exhaustive over all centres and even sizes that fit in 4x4, 5x7, 8x6, 9x9, 12x12 images plus random "
        "images up to 40x40, integer/float centres, int or (int,int) shape: shape as requested, every retained pixel "
        "keeps value and physical coordinates, metadata kept, input unchanged",
        enumerate_cases=enum_crops, tolerances={"equality": "bitwise"}),
    Sub("zero_filter", strat_dead, run_dead, 3000, 60000,
        "every single dead-pixel position on 3x3, 4x5, 6x6 images (exhaustive) plus random images with 0-5 isolated "
        "dead pixels (0.0 or -0.0): positive pixels bit-equal, interior -> mean of 4 neighbours, edge -> mean of the 2 "
        "neighbours along the edge, any dead corner -> BadImage",
        enumerate_cases=enum_dead, tolerances={"value_rel": 1e-12}),
    Sub("accumulator", strat_acc, run_acc, 3000, 60000,
        "sequences of 0-12 pushes of images / arrays / scalars (value ranges incl. large offset 1e5+[0,1]): after every "
        "push mean/std equal numpy batch mean / population std; a permutation of the pushes gives the same result; "
        "pushed items unchanged; empty accumulator -> (0.0, None)",
        tolerances={"rel": 1e-10}),
    Sub("center_finder", strat_center, run_center, 640, 12000,
        "Mie holograms of single spheres (x 3-12, m 1.1-1.35, pixel 0.15-0.5 medium wavelengths) on 60-160 px detectors, "
        "centre anywhere in the central 60%, k z in [40, min(300, pi*near^2)] so that >= 2 fringes lie between the centre "
        "and the nearest edge (calibrated domain; 1 case in 10 is generated outside it and only measured), result dims in "
        "(x,y,z) or (z,x,y) order: centre within 1 pixel; "
        "make_center_priors = centre*spacing+origin, sd = spacing, z in [0, 5*extent]",
        tolerances={"pixels": 1.0}, budget_quick=100),
]
