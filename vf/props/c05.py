"""C05 — holograms covariant under in-plane shift, axial rotation and mirroring."""
import math

import numpy as np
from hypothesis import strategies as st

from ..runner import Sub, Outcome, failure, TOLX
from .. import gen

PROPERTY = "C05"
ASSUMPTIONS = [
    "rotation of a spheroid/cylinder about the optical axis by a adds a to the third Euler angle: "
    "rotation_matrix(alpha,beta,gamma)=Rz(gamma)Ry(beta)Rz(alpha) (validated in C19) applied to an axis along z",
    "bare Tmatrix.raw_fields rejects every polarization other than (1,0) (documented ValueError), so its rotation "
    "covariance is exercised through calc_scat_matrix and through Lens(Tmatrix), shift and mirror directly",
    "the mirror image of an axisymmetric particle with axis u is the same particle with axis M u",
]

# mie: 1e-8 = 5 x eps / sqrt(ACCUR) of SBESJY (see C04); ms: 3 sqrt(eps) of its stopping rule; tmatrix: angle nudges
TOL = {"auto": 2e-3, "mie": 1e-8, "ms": 2e-3, "tmatrix": 3e-5, "mielens": 1e-10, "amielens": 1e-10, "lens": 1e-10, "lens_tm": 3e-5, "lens_ms": 2e-3}
KINDS = ["sphere", "layered", "cluster_mie", "cluster_ms", "spheroid", "cylinder", "mielens", "amielens", "lens"]


def _points_det():
    return st.lists(st.tuples(gen.rounded(-12, 12, 4), gen.rounded(-12, 12, 4)), min_size=1, max_size=8).map(
        lambda l: {"kind": "points", "pts": [[a, b, 0.0] for a, b in l]})


def _scene(kd):
    if kd == "sphere":
        return gen.scene_sphere()
    if kd == "layered":
        return gen.scene_layered()
    if kd == "cluster_mie":
        return gen.scene_cluster("mie")
    if kd == "cluster_ms":
        return gen.scene_cluster("ms").map(lambda s: dict(s, th=dict(s["th"], tight=True)))
    if kd in ("spheroid", "cylinder"):
        return gen.scene_axisym(kd)
    if kd == "cluster_auto":
        # theory left to the library: 2-3 small equal spheres whose farthest pair sits 24-48 radii apart, i.e. on
        # both sides of the 30-radius rule that selects Multisphere or Mie superposition
        mem = st.fixed_dictionaries({"x": st.just(0.4), "m": gen.rel_index(False, 1.1, 1.8),
                                     "dir": st.tuples(st.floats(0.9, math.pi - 0.9), st.floats(0, 2 * math.pi)).map(list),
                                     "dist": st.floats(12.0, 24.0)})
        return st.fixed_dictionaries({"kind": st.just("cluster"), "mem": st.lists(mem, min_size=2, max_size=3),
                                      "pl": st.fixed_dictionaries({"fx": gen.rounded(0, 1, 3), "fy": gen.rounded(0, 1, 3), "kgap": st.floats(40.0, 120.0)}),
                                      "th": st.just({"t": "auto"})})
    if kd == "lens_tm":
        ang = st.floats(0.0, math.pi)
        return st.fixed_dictionaries({"kind": st.sampled_from(["spheroid", "cylinder"]), "xv": gen.size_param(0.5, 4.0),
                                      "aspect": st.floats(0.6, 1.8), "m": st.just([1.2, 0.0]).map(list),
                                      "rot": st.tuples(ang, ang, ang).map(list),
                                      "pl": st.fixed_dictionaries({"fx": gen.rounded(0, 1, 3), "fy": gen.rounded(0, 1, 3),
                                                                   "kgap": st.floats(5.0, 80.0)}),
                                      "th": st.fixed_dictionaries({"t": st.just("lens"), "lens_angle": gen.rounded(0.2, 1.0, 3),
                                                                   "q": st.tuples(st.integers(14, 20), st.integers(14, 20)).map(list),
                                                                   "inner": st.just("tmatrix")})})
    if kd in ("lens_ms", "lens_cluster_mie"):
        inner = "ms" if kd == "lens_ms" else "mie"
        mem = st.fixed_dictionaries({"x": gen.size_param(0.5, 3.0), "m": gen.rel_index(False, 1.05, 1.8),
                                     "dir": st.tuples(st.floats(0.3, math.pi - 0.3), st.floats(0, 2 * math.pi)).map(list), "dist": st.floats(1.05, 1.5)})
        return st.fixed_dictionaries({"kind": st.just("cluster"), "mem": st.lists(mem, min_size=2, max_size=3),
                                      "pl": st.fixed_dictionaries({"fx": gen.rounded(0, 1, 3), "fy": gen.rounded(0, 1, 3), "kgap": st.floats(20.0, 80.0)}),
                                      "th": st.fixed_dictionaries({"t": st.just("lens"), "lens_angle": gen.rounded(0.3, 1.0, 3), "q": st.just([24, 24]),
                                                                   "inner": st.just(inner)})})
    return gen.scene_lens(kd)


def strat(tier):
    opts = []
    for kd in KINDS + ["lens_tm", "lens_ms", "lens_cluster_mie", "cluster_auto"]:
        pol = st.just([1.0, 0.0]) if kd in ("spheroid", "cylinder") else None
        opts.append(st.fixed_dictionaries({"o": gen.optics(True, pol=pol), "det": _points_det(), "sc": _scene(kd)}))
    ang = st.one_of(st.floats(0, 2 * math.pi), st.floats(0, 2 * math.pi),
                    st.sampled_from([math.pi / 2, -math.pi / 2, math.pi, math.pi / 4, 1e-3]))
    return st.tuples(st.one_of(*opts), st.sampled_from(["shift", "rotate", "rotate", "mirror"]), ang,
                     st.tuples(gen.rounded(-30, 30, 3), gen.rounded(-30, 30, 3)), st.sampled_from([False, False, False, True])).map(
        lambda t: dict(t[0], op=t[1], angle=t[2], shift=list(t[3]), int_coords=t[4]))


def _tkey(sc):
    t = sc["th"]["t"]
    if t == "lens" and sc["th"].get("inner") == "tmatrix":
        return "lens_tm"
    if t == "lens" and sc["th"].get("inner") == "ms":
        return "lens_ms"
    return t


def transform_scatterer(s, fc, axis_map=None, dgamma=0.0):
    from holopy.scattering import Sphere, Spheres, Spheroid, Cylinder
    if isinstance(s, Spheres):
        return Spheres([transform_scatterer(m, fc, axis_map, dgamma) for m in s.scatterers], warn=False)
    c = tuple(float(v) for v in fc(np.array(s.center, dtype=float)))
    if isinstance(s, Sphere):
        return Sphere(n=s.n, r=s.r, center=c)
    rot = list(s.rotation)
    if axis_map is not None:
        al, be, ga = rot
        u = np.array([math.sin(be) * math.cos(ga), math.sin(be) * math.sin(ga), math.cos(be)])
        u2 = axis_map(u)
        rot = [0.0, math.acos(max(-1.0, min(1.0, u2[2]))), math.atan2(u2[1], u2[0]) % (2 * math.pi)]
    else:
        rot = [rot[0], rot[1], (rot[2] + dgamma) % (2 * math.pi)]
    if isinstance(s, Spheroid):
        return Spheroid(n=s.n, r=s.r, rotation=tuple(rot), center=c)
    return Cylinder(n=s.n, h=s.h, d=s.d, rotation=tuple(rot), center=c)


def run(case):
    import holopy as hp
    from holopy.scattering import calc_field, calc_holo, calc_scat_matrix
    o, det, sc = case["o"], case["det"], case["sc"]
    unit = o["wl"] / o["nm"]
    tk = _tkey(sc)
    if sc["th"]["t"] == "lens":
        # keep the numerical lens integral cheap and converged: points within +-5 wavelengths,
        # |kz| <= 120, quadrature order adapted to the oscillation of the integrand
        shrink = 0.4 if (sc["th"].get("inner", "mie") == "mie" and sc["kind"] == "sphere") else 0.12
        det = {"kind": "points", "pts": [[p[0] * shrink, p[1] * shrink, 0.0] for p in det["pts"]]}
        if "kz" in sc["pl"]:
            sc = dict(sc, pl=dict(sc["pl"], kz=max(-100.0, min(120.0, sc["pl"]["kz"]))))
    if sc["th"]["t"] == "ms":
        # as in C04/C09: the detector stays outside the sphere circumscribing the cluster with a margin; inside it
        # the cluster-centred expansion Multisphere evaluates does not converge and the value is series noise
        sc = dict(sc, pl=dict(sc["pl"], kgap=40.0 + sc["pl"]["kgap"]))
    s, th, info = gen.build_scene(sc, o, det)
    P = gen.detector_points_xyz(det, unit)
    int_coords = bool(case.get("int_coords")) and sc["th"]["t"] != "lens" and not (sc["th"]["t"] in ("mielens", "amielens"))
    if int_coords:
        # detector positions on the integer lattice of the length unit in use (the particle keeps its generic place)
        P = np.column_stack([np.round(P[:, 0]), np.round(P[:, 1]), P[:, 2]])
    if sc["th"]["t"] == "lens":
        kk = gen.wavevec(o)
        c0 = np.array(info["centers"][0])
        krho = kk * np.hypot(P[:, 0] - c0[0], P[:, 1] - c0[1]).max()
        xx = sc["s"]["x"] if "s" in sc else kk * (max(info["radii"]) + (np.ptp(np.array(info["centers"]), axis=0).max() if len(info["centers"]) > 1 else 0.0))
        q = gen.lens_quad_order(kk * (c0[2] - P[0, 2]), krho, sc["th"]["lens_angle"], xx)
        th = gen.build_theory(dict(sc["th"], q=[q, q]))
    op = case["op"]
    a = case["angle"]
    labels = [gen.scene_label(sc) if tk not in ("lens_tm", "lens_ms") else sc["kind"] + "+lens(%s)" % sc["th"]["inner"], op]
    if int_coords:
        labels.append("integer_typed_coordinates")
    if sc["th"]["t"] == "lens" and sc["kind"] == "cluster" and sc["th"].get("inner") == "mie":
        labels[0] = "cluster+lens(mie)"
    pol = np.array(o["pol"], dtype=float)
    pang = math.atan2(pol[1], pol[0])
    bare_tm = sc["th"]["t"] == "tmatrix"
    if op == "shift":
        v = np.array([case["shift"][0] * unit, case["shift"][1] * unit, 0.0])
        fc = lambda c: c + v
        P2 = P + v
        s2 = transform_scatterer(s, fc)
        pol2 = pol
        Mvec = np.eye(3)
    elif op == "rotate":
        ca, sa = math.cos(a), math.sin(a)
        R = np.array([[ca, -sa, 0], [sa, ca, 0], [0, 0, 1.0]])
        fc = lambda c: R @ c
        P2 = P @ R.T
        s2 = transform_scatterer(s, fc, dgamma=a)
        pol2 = (R @ np.array([pol[0], pol[1], 0.0]))[:2]
        Mvec = R
    else:
        # mirror in the plane containing z and the polarization direction, through the origin
        n = np.array([-math.sin(pang), math.cos(pang), 0.0])
        M = np.eye(3) - 2 * np.outer(n, n)
        fc = lambda c: M @ c
        P2 = P @ M.T
        s2 = transform_scatterer(s, fc, axis_map=lambda u: M @ u)
        pol2 = pol
        Mvec = M
    if tk == "auto":
        # the library's own choice of theory must not depend on how the configuration sits in the frame
        from holopy.scattering.interface import determine_default_theory_for
        ta, tb = type(determine_default_theory_for(s)).__name__, type(determine_default_theory_for(s2)).__name__
        labels.append("auto_" + ta)
        if ta != tb:
            return Outcome(failure("auto_choice_not_covariant", "theory='auto' picks %s for the configuration and %s for the same configuration after the %s" % (ta, tb, op),
                                   op=op), True, labels)
    d1 = hp.detector_points(x=P[:, 0], y=P[:, 1], z=P[:, 2])
    d2 = hp.detector_points(x=P2[:, 0], y=P2[:, 1], z=P2[:, 2])
    if int_coords:
        # the same positions, held in integer-typed coordinate arrays (a pixel-index grid with spacing 1)
        d1 = hp.detector_points(x=P[:, 0].astype(np.int64), y=P[:, 1].astype(np.int64), z=P[:, 2])
    kw1 = dict(medium_index=o["nm"], illum_wavelen=o["wl"], illum_polarization=tuple(pol))
    kw2 = dict(medium_index=o["nm"], illum_wavelen=o["wl"], illum_polarization=tuple(pol2))
    tol = TOL[tk] * TOLX
    met = {}
    try:
        if bare_tm and op == "rotate":
            # polarization cannot be rotated for bare Tmatrix: compare scattering matrices (polarization free)
            # exactly on the axis through the particle the scattering plane (azimuth) is undefined, so
            # the matrix in the parallel/perpendicular basis is not comparable there: drop such points
            c0 = np.array(info["centers"][0])
            keep = np.hypot(P[:, 0] - c0[0], P[:, 1] - c0[1]) > 1e-6 * unit
            if not keep.any():
                return Outcome(None, False, labels + ["on_axis_only"], skipped=True)
            d1 = hp.detector_points(x=P[keep, 0], y=P[keep, 1], z=P[keep, 2])
            d2 = hp.detector_points(x=P2[keep, 0], y=P2[keep, 1], z=P2[keep, 2])
            S1 = calc_scat_matrix(d1, s, o["nm"], o["wl"], theory=th).values
            S2 = calc_scat_matrix(d2, s2, o["nm"], o["wl"], theory=th).values
            scale = np.abs(S1).max()
            err = np.abs(S1 - S2).max() / scale
            met["tmatrix_scatmatrix_rotate"] = err
            if not np.isfinite(err) or err > tol:
                return Outcome(failure("rotation_covariance_scat_matrix", "scattering matrix changes by %.3g (rel) under rotation by %.6g rad" % (err, a),
                                       theory=tk), True, labels)
            return Outcome(None, abs(math.sin(2 * a)) > 2e-3, labels + ["via_scat_matrix"], metrics=met)
        E1 = calc_field(d1, s, theory=th, **kw1).values
        E2 = calc_field(d2, s2, theory=th, **kw2).values
        H1 = calc_holo(d1, s, theory=th, **kw1).values
        H2 = calc_holo(d2, s2, theory=th, **kw2).values
    except Exception as e:
        if type(e).__name__ == "MultisphereFailure":
            return Outcome(None, False, labels + ["MultisphereFailure"], skipped=True)
        raise
    want = E1 @ Mvec.T
    scale = np.abs(E1).max()
    err = np.abs(E2 - want).max() / scale
    eh = np.abs(H2 - H1).max() / max(1.0, np.abs(H1).max())
    met["%s_%s_field" % (tk, op)] = err
    met["%s_%s_holo" % (tk, op)] = eh
    if not np.isfinite(err) or err > tol:
        return Outcome(failure("%s_covariance_field" % op, "field violates %s covariance by %.3g (rel) [%s]" % (op, err, labels[0]),
                               theory=tk), True, labels)
    if not np.isfinite(eh) or eh > tol * 3:
        return Outcome(failure("%s_covariance_hologram" % op, "hologram changes by %.3g under %s [%s]" % (eh, op, labels[0]),
                               theory=tk), True, labels)
    offaxis = np.any(np.hypot(P[:, 0] - info["centers"][0][0], P[:, 1] - info["centers"][0][1]) > 0.5 * unit)
    pol_generic = abs(math.sin(2 * pang)) > 2e-3
    if op == "rotate":
        nontrivial = abs(math.sin(2 * a)) > 2e-3 and (pol_generic or bare_tm) and offaxis
    elif op == "shift":
        nontrivial = any(case["shift"]) and offaxis
    else:
        nontrivial = offaxis
    if pol_generic:
        labels.append("pol_generic")
    if "kz" in sc["pl"]:
        labels.append("below_focus" if sc["pl"]["kz"] < 0 else "above_focus")
    return Outcome(None, nontrivial, labels, metrics=met)


# --- whole-pixel shift on grids and sphere hologram symmetry -----------------------------------
def strat_grid(tier):
    side = st.integers(2, 8 if tier == "quick" else 20)
    return st.fixed_dictionaries({
        "o": gen.optics(True, pol=st.sampled_from([[1.0, 0.0], [0.0, 1.0], [0.0, -2.0], [-0.5, 0.0]])),
        "shape": st.tuples(side, side).map(list),
        "spacing": st.tuples(gen.logu(0.05, 2.0), gen.logu(0.05, 2.0)).map(list),
        "s": gen.sphere_dimless(0.1, 20.0),
        "half": st.tuples(st.booleans(), st.booleans()).map(list),    # centre on a pixel or between pixels
        "kgap": gen.logu(0.5, 200.0),
        "theory": st.sampled_from(["mie", "mielens", "lens"]),
        "pix": st.tuples(st.integers(-40, 40), st.integers(-40, 40)).map(list),
    })


def run_grid(case):
    import holopy as hp
    from holopy.scattering import calc_holo, Sphere
    o = case["o"]
    unit = o["wl"] / o["nm"]
    k = gen.wavevec(o)
    nx, ny = case["shape"]
    sx, sy = case["spacing"][0] * unit, case["spacing"][1] * unit
    d = hp.detector_grid(shape=(nx, ny), spacing=(sx, sy))
    # particle centre exactly on the symmetry centre of the grid (pixel or mid-pixel)
    cx = ((nx - 1) // 2 + (0.5 if (nx % 2 == 0) else 0.0)) * sx
    cy = ((ny - 1) // 2 + (0.5 if (ny % 2 == 0) else 0.0)) * sy
    r = case["s"]["x"] / k
    m = case["s"]["m"]
    n = (complex(*m) if m[1] else m[0]) * o["nm"]
    if case["theory"] == "mie":
        th = gen.build_theory({"t": "mie"})
    elif case["theory"] == "mielens":
        th = gen.build_theory({"t": "mielens", "lens_angle": 0.9})
    else:
        th = gen.build_theory({"t": "lens", "lens_angle": 0.9, "q": [24, 24]})
    s = Sphere(n=n, r=r, center=(cx, cy, r + case["kgap"] / k))
    kw = gen.optics_kwargs(o)
    H = calc_holo(d, s, theory=th, **kw)
    v = H.transpose("x", "y", "z").values[:, :, 0]
    labels = [case["theory"], "grid_symmetry"]
    e1 = np.abs(v - v[::-1, :]).max()
    e2 = np.abs(v - v[:, ::-1]).max()
    scale = max(1.0, np.abs(v).max())
    met = {"flip_x": e1 / scale, "flip_y": e2 / scale}
    if not (max(e1, e2) / scale <= 1e-9 * TOLX):
        return Outcome(failure("sphere_hologram_symmetry", "hologram of a centred sphere under axis-aligned polarization is not symmetric: "
                               "flip x %.3g, flip y %.3g" % (e1 / scale, e2 / scale), theory=case["theory"]), True, labels)
    # whole-pixel shift of detector and particle
    px, py = case["pix"]
    d2 = d.assign_coords(x=d.x.values + px * sx, y=d.y.values + py * sy)
    s2 = Sphere(n=n, r=r, center=(cx + px * sx, cy + py * sy, r + case["kgap"] / k))
    H2 = calc_holo(d2, s2, theory=th, **kw)
    v2 = H2.transpose("x", "y", "z").values[:, :, 0]
    e3 = np.abs(v2 - v).max() / scale
    met["pixel_shift"] = e3
    if not (e3 <= 1e-9 * TOLX):
        return Outcome(failure("whole_pixel_shift", "hologram changes by %.3g when particle and grid shift by (%d,%d) pixels" % (e3, px, py),
                               theory=case["theory"]), True, labels)
    if not (np.array_equal(H2.x.values, d2.x.values) and np.array_equal(H2.y.values, d2.y.values)):
        return Outcome(failure("shifted_coordinates", "result does not carry the shifted grid coordinates"), True, labels)
    return Outcome(None, nx * ny >= 4 and np.abs(v - 1).max() > 1e-6 and (px or py), labels, metrics=met)


SUBCHECKS = [
    Sub("shift_rotate_mirror", strat, run, 3000, 50000,
        "point detectors (1-8 points, fixed z) x all scene kinds incl. Lens(Tmatrix); op in {shift by arbitrary vector, "
        "rotate by angle a about z (centres, Euler gamma, polarization, points), mirror in the plane through z and the "
        "polarization}; expected E'(T p) = T E(p) and equal holograms; non-trivial = rotation angle and polarization "
        "angle both >1e-3 away from multiples of pi/2 and at least one off-axis point",
        tolerances=TOL),
    Sub("grid_symmetry_and_pixel_shift", strat_grid, run_grid, 1200, 20000,
        "sphere centred on a pixel or pixel midpoint of an n x m grid under +-x / +-y polarization (Mie, MieLens, "
        "Lens(Mie)): hologram symmetric under both axis flips; shifting particle and grid by whole pixels (+-40) leaves "
        "values unchanged and coordinates shifted",
        tolerances={"rel": 1e-9}),
]
