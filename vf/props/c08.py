"""C08 — analytic sphere-through-lens theory equals the numerical lens wrapper."""
import math

import numpy as np
from hypothesis import strategies as st

from ..runner import Sub, Outcome, failure, TOLX
from .. import gen

PROPERTY = "C08"
ASSUMPTIONS = [
    "convergence-aware generation: Phi = |kz|(1-cos b) + k rho_max sin b is kept <= 2.0*quad_npts for MieLens (default "
    "100 points) and Lens gets theta/phi quadrature orders above the calibrated minima (vf/gen.lens_quad_order)",
    "numexpr is not installed: the use_numexpr branch of Lens is unreachable in this sandbox (flag forced False by the code)",
    "interpolation independence is asserted for the default interpolator parameters and for parameters at least as "
    "fine (smaller window, higher degree); coarser user-supplied parameters are documented as less accurate",
]


def _base(absorbing, xhi=50.0, phimax=200.0):
    return st.fixed_dictionaries({
        "o": gen.optics(True),
        "s": gen.sphere_dimless(0.1, xhi, absorbing, 1.05, 2.5).map(lambda s: dict(s, m=[s["m"][0], min(s["m"][1], 0.5)])),
        "kz": st.one_of(st.floats(-150.0, 300.0), st.floats(-30.0, 60.0)),
        "beta": gen.rounded(0.1, 1.4, 4),
        "frac": st.lists(st.tuples(st.floats(0.0, 1.0), st.floats(0, 2 * math.pi)), min_size=1, max_size=6).map(
            lambda l: [list(t) for t in l]),
        "phimax": st.just(phimax),
    })


def _geometry(case, rho_cap=None, npts=100):
    """detector points and sphere from the dimensionless case; returns (det, sphere, krho, kz, info)."""
    import holopy as hp
    from holopy.scattering import Sphere
    o, s = case["o"], case["s"]
    k = gen.wavevec(o)
    beta = case["beta"]
    kz = case["kz"]
    phimax = case["phimax"] * npts / 100.0
    # keep Phi <= phimax by construction: shrink kz if needed, then bound k*rho
    zmax = 0.8 * phimax / (1 - math.cos(beta))
    kz = max(-zmax, min(zmax, kz))
    krho_max = (phimax - abs(kz) * (1 - math.cos(beta))) / math.sin(beta)
    # stay below MieLens' documented large-rho cutoff (k rho < 3.9 * quad_npts, default 100 points)
    krho_max = min(krho_max, 0.97 * 3.9 * npts)
    if rho_cap is not None:
        krho_max = min(krho_max, rho_cap / math.sin(beta))
    krho = np.array([f[0] * krho_max for f in case["frac"]])
    phi = np.array([f[1] for f in case["frac"]])
    det = hp.detector_points(x=krho * np.cos(phi) / k, y=krho * np.sin(phi) / k, z=0.0)
    n = (complex(*s["m"]) if s["m"][1] else s["m"][0]) * o["nm"]
    sph = Sphere(n=n, r=s["x"] / k, center=(0.0, 0.0, kz / k))
    return det, sph, krho, kz, phi


# ------------------------------------------------------------------------------------------ a
def strat_agree(tier):
    # npts: pupil quadrature order requested from MieLens; above the default (100) the detector may lie where the
    # default order is not converged (Phi in (200, 2*npts]) and beyond the default large-rho cutoff
    return st.tuples(_base(None), st.tuples(st.integers(0, 60), st.integers(0, 60)), st.booleans(),
                     st.sampled_from([100, 100, 100, 130, 180, 260]), gen.warm_strategy()).map(
        lambda t: dict(t[0], extra=list(t[1]), equal_orders=t[2], npts=t[3], warm=t[4]))


def run_agree(case):
    from holopy.scattering import calc_field, Mie
    from holopy.scattering.theory import MieLens, Lens
    o, s = case["o"], case["s"]
    npts = case.get("npts", 100)
    if npts > 100:
        # aim the first point at the region only the refined order resolves
        case = dict(case, frac=[[0.6 + 0.4 * case["frac"][0][0], case["frac"][0][1]]] + case["frac"][1:])
    det, sph, krho, kz, phi = _geometry(case, rho_cap=100.0 if npts == 100 else None, npts=npts)
    beta = case["beta"]
    kw = gen.optics_kwargs(o)
    phase = abs(kz) * (1 - math.cos(beta)) + krho.max() * math.sin(beta)
    qt = int(max(math.ceil(phase / 2) + 30, math.ceil(4 * s["x"] * beta / math.pi) + 30)) + case["extra"][0]
    qp = int(math.ceil(1.5 * krho.max() * math.sin(beta)) + 40) + case["extra"][1]
    if case["equal_orders"]:
        qt = qp = max(qt, qp)
    ml = MieLens(lens_angle=beta) if npts == 100 else MieLens(lens_angle=beta, calculator_accuracy_kwargs={"quad_npts": npts})
    lens = Lens(beta, Mie(False, False), quad_npts_theta=qt, quad_npts_phi=qp)
    # both theory objects may have been used before, on a sibling sphere
    gen.warm_up(ml, sph, o, case.get("warm"))
    gen.warm_up(lens, sph, o, case.get("warm"))
    a = calc_field(det, sph, theory=ml, **kw).values
    b = calc_field(det, sph, theory=lens, **kw).values
    pang = math.atan2(o["pol"][1], o["pol"][0])
    labels = ["absorbing" if s["m"][1] else "real", "below_focus" if kz < 0 else "above_focus",
              "equal_orders" if qt == qp else "unequal_orders", "small_angle" if beta < 0.5 else "large_angle"]
    if case.get("warm"):
        labels.append("theory_used_before")
    if npts > 100:
        labels.append("refined_needed" if (phase > 200 or krho.max() > 390) else "refined_not_needed")
    scale = np.abs(b).max()
    err = np.abs(a - b).max() / scale
    if not np.isfinite(err) or err > 3e-6 * TOLX:
        return Outcome(failure("mielens_vs_lens_mie", "MieLens(quad_npts=%d) and Lens(Mie) differ by %.3g (rel); q=(%d,%d), kz=%.4g, beta=%.4g, pol angle %.4g, m=%r"
                               % (npts, err, qt, qp, kz, beta, pang, s["m"]), equal_orders=qt == qp, absorbing=bool(s["m"][1])), True, labels)
    nontrivial = abs(math.sin(2 * pang)) > 0.1 and np.any(krho * math.sin(beta) > 1)
    return Outcome(None, nontrivial, labels, metrics={"agree_" + labels[0] + "_" + labels[2] + ("_refined" if npts > 100 else ""): err})


# ------------------------------------------------------------------------------------------ b
def strat_refine(tier):
    return st.tuples(_base(False, 30.0), st.sampled_from(["mielens", "lens"])).map(lambda t: dict(t[0], which=t[1]))


def run_refine(case):
    from holopy.scattering import calc_field, Mie
    from holopy.scattering.theory import MieLens, Lens
    o, s = case["o"], case["s"]
    beta = case["beta"]
    kw = gen.optics_kwargs(o)
    labels = [case["which"]]
    if case["which"] == "mielens":
        det, sph, krho, kz, phi = _geometry(case)
        vals = [calc_field(det, sph, theory=MieLens(lens_angle=beta, calculator_accuracy_kwargs={"quad_npts": q}), **kw).values
                for q in (100, 200, 400)]
    else:
        det, sph, krho, kz, phi = _geometry(case, rho_cap=40.0)
        q = gen.lens_quad_order(kz, krho.max(), beta, s["x"])
        vals = [calc_field(det, sph, theory=Lens(beta, Mie(False, False), quad_npts_theta=qq, quad_npts_phi=qq), **kw).values
                for qq in (q, 2 * q)]
    scale = np.abs(vals[-1]).max()
    err = max(np.abs(v - vals[-1]).max() for v in vals[:-1]) / scale
    if not np.isfinite(err) or err > 1e-7 * TOLX:
        return Outcome(failure("quadrature_refinement", "%s changes by %.3g (rel) when the quadrature is refined (kz=%.4g beta=%.4g krho_max=%.4g)"
                               % (case["which"], err, kz, beta, krho.max()), which=case["which"]), True, labels)
    return Outcome(None, krho.max() * math.sin(beta) > 1, labels, metrics={"refine_" + case["which"]: err})


# ------------------------------------------------------------------------------------------ c, d, e
def strat_variants(tier):
    return st.tuples(_base(None), st.sampled_from(["zero_aberration", "zero_aberration", "interpolation", "interpolation", "cutoff", "cutoff", "interpolation_large_grid"]),
                     st.sampled_from(["scalar", "list1", "list3", "array", "int"]),
                     st.sampled_from(["check", True, False]), st.floats(8.0, 30.0), st.integers(32, 48),
                     st.integers(50, 160)).map(
        lambda t: dict(t[0], variant=t[1], zero_form=t[2], interp=t[3], window=t[4], degree=t[5], npts=t[6]))


def run_variants(case):
    import holopy as hp
    from holopy.scattering import calc_field, Sphere
    from holopy.scattering.theory import MieLens, AberratedMieLens
    o, s = case["o"], case["s"]
    beta = case["beta"]
    kw = gen.optics_kwargs(o)
    v = case["variant"]
    labels = [v]
    det, sph, krho, kz, phi = _geometry(case)
    if v == "zero_aberration":
        z = {"scalar": 0.0, "int": 0, "list1": [0.0], "list3": [0.0, 0.0, 0.0], "array": np.zeros(4)}[case["zero_form"]]
        # both theories with the same accuracy options: none, or a quadrature order / interpolation choice of
        # their own (derived from the case so that old cases replay unchanged)
        acc = {}
        pick = case["degree"] % 3
        if pick == 1:
            acc = {"quad_npts": case["npts"]}
            # let points fall between the two large-rho cutoffs (3.9 * npts and 3.9 * 100)
            det, sph, krho, kz, phi = _geometry(case, npts=max(100, case["npts"]))
        elif pick == 2:
            acc = {"interpolate_integrals": case["interp"], "quad_npts": case["npts"]}
            det, sph, krho, kz, phi = _geometry(case, npts=max(100, case["npts"]))
        a = calc_field(det, sph, theory=AberratedMieLens(spherical_aberration=z, lens_angle=beta, calculator_accuracy_kwargs=dict(acc)), **kw).values
        b = calc_field(det, sph, theory=MieLens(lens_angle=beta, calculator_accuracy_kwargs=dict(acc)), **kw).values
        labels.append(case["zero_form"])
        labels.append("accuracy_options" if acc else "default_options")
        if not np.array_equal(a, b):
            return Outcome(failure("zero_aberration", "AberratedMieLens(%r) differs from MieLens by %.3g" % (z, np.abs(a - b).max()),
                                   form=case["zero_form"]), True, labels)
        return Outcome(None, krho.max() > 1, labels)
    if v == "interpolation":
        acc = {"interpolate_integrals": case["interp"], "interpolator_window_size": case["window"], "interpolator_degree": case["degree"]}
        a = calc_field(det, sph, theory=MieLens(lens_angle=beta, calculator_accuracy_kwargs=acc), **kw).values
        b = calc_field(det, sph, theory=MieLens(lens_angle=beta, calculator_accuracy_kwargs={"interpolate_integrals": False}), **kw).values
        c = calc_field(det, sph, theory=MieLens(lens_angle=beta), **kw).values   # all defaults ('check', 30, 32)
        labels.append("interp_%s" % case["interp"])
        scale = np.abs(b).max()
        e1 = np.abs(a - b).max() / scale
        e2 = np.abs(c - b).max() / scale
        if case["interp"] is False and not np.array_equal(a, b):
            return Outcome(failure("interpolation_off_not_direct", "interpolate_integrals=False results differ"), True, labels)
        if max(e1, e2) > 1e-6 * TOLX or not np.isfinite(e1 + e2):
            return Outcome(failure("interpolation_dependence", "interpolated vs direct radial integrals differ by %.3g (custom) / %.3g (defaults); window %.3g degree %d"
                                   % (e1, e2, case["window"], case["degree"]), interp=str(case["interp"])), True, labels)
        return Outcome(None, len(krho) >= 2, labels, metrics={"interp_custom": e1, "interp_default": e2})
    if v == "interpolation_large_grid":
        # a whole image in one call: thousands of detector points (the few-point cases above never fill an internal block)
        k = gen.wavevec(o)
        nx, ny = 40 + case["degree"] % 33, 40 + case["npts"] % 33
        krho_max = float(krho.max()) if len(krho) and krho.max() > 1 else 30.0
        span = 2 * krho_max / math.sqrt(2.0) / k
        grid = hp.detector_grid((nx, ny), (span / nx, span / ny))
        c0 = (span / 2 * (0.3 + 0.4 * case["frac"][0][0]), span / 2 * (0.3 + 0.4 * (case["frac"][0][1] / (2 * math.pi))), kz / k)
        sph2 = Sphere(n=sph.n, r=sph.r, center=c0)
        fa = calc_field(grid, sph2, theory=MieLens(lens_angle=beta, calculator_accuracy_kwargs={"interpolate_integrals": False}), **kw).values
        fb = calc_field(grid, sph2, theory=MieLens(lens_angle=beta, calculator_accuracy_kwargs={"interpolate_integrals": True}), **kw).values
        fc = calc_field(grid, sph2, theory=MieLens(lens_angle=beta), **kw).values
        scale = np.abs(fb).max()
        e1 = np.abs(fa - fb).max() / scale
        e2 = np.abs(fc - fb).max() / scale
        labels.append("points_%d" % (1000 * ((nx * ny) // 1000)))
        if max(e1, e2) > 1e-6 * TOLX or not np.isfinite(e1 + e2):
            i = int(np.argmax(np.abs(fa - fb).max(axis=0).ravel())) if fa.shape == fb.shape else -1
            return Outcome(failure("interpolation_dependence_grid", "%dx%d grid: direct vs interpolated radial integrals differ by %.3g, defaults vs interpolated by %.3g "
                                   "(largest at flattened pixel %d)" % (nx, ny, e1, e2, i)), True, labels)
        return Outcome(None, nx * ny >= 2048, labels, metrics={"interp_grid_direct": e1, "interp_grid_default": e2})
    # cutoff: beyond k rho >= 3.9 * quad_npts the field is exactly zero, just below finite
    npts = case["npts"]
    k = gen.wavevec(o)
    cut = 3.9 * npts
    kr = np.array([cut * (1 - 1e-9), cut * 0.5, cut * (1 + 1e-9), cut * 1.5, cut * 10])
    ph = np.resize(phi, kr.shape)
    det = hp.detector_points(x=kr * np.cos(ph) / k, y=kr * np.sin(ph) / k, z=0.0)
    f = calc_field(det, sph, theory=MieLens(lens_angle=beta, calculator_accuracy_kwargs={"quad_npts": npts}), **kw).values
    if not np.all(np.isfinite(f)):
        return Outcome(failure("cutoff_nonfinite", "non-finite field near the large-rho cutoff"), True, labels)
    if np.abs(f[2:]).max() != 0:
        return Outcome(failure("cutoff_not_zero", "field beyond k rho = 3.9 quad_npts is not exactly 0"), True, labels)
    if np.abs(f[:2, :2]).max() == 0:
        return Outcome(failure("cutoff_zero_inside", "field below the cutoff is exactly 0"), True, labels)
    return Outcome(None, True, labels)


SUBCHECKS = [
    Sub("mielens_vs_lens_mie", strat_agree, run_agree, 1200, 16000,
        "m in [1.05,2.5] (+ absorbing m_i<=0.5), x in [0.1,50], kz in [-150,300], lens angle [0.1,1.4], any polarization, "
        "1-6 points with k rho up to the convergence bound (Phi<=200, k rho sin b<=100); Lens orders drawn independently "
        "above their minima (equal or unequal); non-trivial = polarization >=0.05 rad off the axes and a point with k rho sin b > 1",
        tolerances={"rel": 3e-6}, budget_quick=100),
    Sub("quadrature_refinement", strat_refine, run_refine, 640, 8000,
        "MieLens quad_npts 100 -> 200 -> 400 (Phi<=200) and Lens q -> 2q (k rho sin b <= 40): results agree",
        tolerances={"rel": 1e-7}, budget_quick=100),
    Sub("aberration_interpolation_cutoff", strat_variants, run_variants, 2800, 40000,
        "AberratedMieLens with zero aberration given as 0.0 / 0 / [0] / [0,0,0] / zeros(4) is bit-equal to MieLens; "
        "interpolate_integrals in {check, True, False} with window 8-30 and degree 32-48 agree with direct evaluation; field "
        "exactly 0 for k rho >= 3.9 quad_npts and non-zero below",
        tolerances={"interp_rel": 1e-6, "zero_aberration": "bitwise"}),
]
