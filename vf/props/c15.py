"""C15 — HoloPy objects survive save -> load unchanged."""
import inspect
import io
import math
import operator
import os
import tempfile

import json
import numpy as np
from hypothesis import strategies as st

from ..runner import Sub, Outcome, failure, TOLX
from .. import gen

PROPERTY = "C15"
ASSUMPTIONS = [
    "leaf values are the types with a registered YAML representation: python float/int/complex/str/None, np.float64, "
    "np.int64/int32, np.complex128, 1-D arrays, tuples, lists; other numpy scalar types (float32, bool_, int16) are "
    "outside the documented domain and not generated",
    "equivalence = same class and, for every constructor argument name of the class signature that the original "
    "object stores, an equal value after normalising tuples/arrays to lists and numpy scalars to python scalars",
    "strategies whose packages are absent (emcee, cma) are only constructed and serialised, never run",
]

# ------------------------------------------------------------------------------------------ grammar
_f = st.one_of(gen.rounded(0.1, 5.0, 4), gen.logu(1e-8, 1e8), st.sampled_from([1e-300, 1e300, 0.1 + 0.2, 1 / 3, 2.5e-15]))
_leafnum = st.tuples(_f, st.sampled_from(["float", "np.float64", "int", "np.int64", "np.int32", "float", "np.float64", "int",
                                         "np.float32", "np.float16", "np.int16", "np.uint8"])).map(lambda t: {"v": t[0], "ty": t[1]})
_cplx = st.tuples(_f, gen.rounded(0.0, 2.0, 5), st.sampled_from(["complex", "np.complex128", "complex", "np.complex64"])).map(lambda t: {"v": [t[0], t[1]], "ty": t[2]})
_seq = st.sampled_from(["list", "tuple", "array"])


def num(d):
    v, ty = d["v"], d["ty"]
    if ty == "float":
        return float(v)
    if ty == "np.float64":
        return np.float64(v)
    if ty == "int":
        return int(min(max(round(v), -10 ** 9), 10 ** 9))
    if ty == "np.int64":
        return np.int64(min(max(round(v), -10 ** 9), 10 ** 9))
    if ty == "np.int32":
        return np.int32(min(max(round(v), -10 ** 6), 10 ** 6))
    if ty in ("np.float32", "np.float16"):
        return getattr(np, ty[3:])(v)
    if ty == "np.int16":
        return np.int16(min(max(round(v), -10 ** 4), 10 ** 4))
    if ty == "np.uint8":
        return np.uint8(min(max(round(abs(v)), 0), 255))
    if ty == "complex":
        return complex(v[0], v[1])
    if ty == "np.complex64":
        return np.complex64(complex(v[0], v[1]))
    return np.complex128(complex(v[0], v[1]))


def seq(kind, items):
    if kind == "list":
        return list(items)
    if kind == "tuple":
        return tuple(items)
    return np.array(items)


def prior_spec(depth=2):
    base = st.one_of(
        st.fixed_dictionaries({"c": st.just("Uniform"), "lo": _f, "w": _f, "guess": st.booleans(), "name": st.sampled_from([None, "a", "my name", "r_0"])}),
        st.fixed_dictionaries({"c": st.just("Gaussian"), "mu": _leafnum, "sd": _f, "name": st.sampled_from([None, "g"])}),
        st.fixed_dictionaries({"c": st.just("BoundedGaussian"), "mu": _f, "sd": _f, "side": st.sampled_from(["both", "lo", "hi", "none"]), "name": st.sampled_from([None, "bg"])}),
    )
    if depth == 0:
        return base
    sub = prior_spec(depth - 1)
    return st.one_of(base, base,
                     st.fixed_dictionaries({"c": st.just("ComplexPrior"), "re": st.one_of(sub, _leafnum), "im": st.one_of(sub, _leafnum), "name": st.sampled_from([None, "z"])}),
                     st.fixed_dictionaries({"c": st.just("Transformed"), "op": st.sampled_from(["add", "mul", "sub", "div", "pow", "neg", "np.sqrt", "np.exp", "np.add", "np.multiply", "rdiv"]),
                                            "a": sub, "b": st.one_of(sub, _f.map(lambda v: {"v": v, "ty": "float"})), "name": st.sampled_from([None, "t"])}))


def build_prior(d):
    from holopy.core import prior
    c = d["c"]
    if c == "Uniform":
        lo, hi = d["lo"], d["lo"] + d["w"]
        if not hi > lo:
            hi = lo * 2 + 1
        return prior.Uniform(lo, hi, guess=(lo + hi) / 2 if d["guess"] else None, name=d["name"])
    if c == "Gaussian":
        return prior.Gaussian(num(d["mu"]), d["sd"], name=d["name"])
    if c == "BoundedGaussian":
        lo = d["mu"] - d["sd"] if d["side"] in ("both", "lo") else -np.inf
        hi = d["mu"] + 2 * d["sd"] if d["side"] in ("both", "hi") else np.inf
        if d["side"] == "none":
            return prior.BoundedGaussian(d["mu"], d["sd"], name=d["name"])
        if not (lo < d["mu"] < hi):
            lo, hi = -np.inf, np.inf
        return prior.BoundedGaussian(d["mu"], d["sd"], lo, hi, name=d["name"])
    if c == "ComplexPrior":
        re = build_prior(d["re"]) if "c" in d["re"] else num(d["re"])
        im = build_prior(d["im"]) if "c" in d["im"] else num(d["im"])
        return prior.ComplexPrior(re, im, name=d["name"])
    a = build_prior(d["a"])
    b = build_prior(d["b"]) if "c" in d["b"] else num(d["b"])
    op = d["op"]
    if op == "add": r = a + b
    elif op == "mul": r = a * (b if not (isinstance(b, float) and b in (0.0, 1.0)) else 2.5)
    elif op == "sub": r = a - b
    elif op == "div": r = a / (b if not isinstance(b, float) or b != 0 else 2.0)
    elif op == "pow": r = a ** 2
    elif op == "neg": r = -a
    elif op == "np.sqrt": r = np.sqrt(a)
    elif op == "np.exp": r = np.exp(a)
    elif op == "np.add": r = np.add(a, b)
    elif op == "np.multiply": r = np.multiply(a, b)
    else: r = 2.0 / a
    if d["name"] and isinstance(r, prior.TransformedPrior):
        r = prior.TransformedPrior(r.transformation, list(r.base_prior), name=d["name"])
    return r


def value(allow_prior=True):
    opts = [_leafnum, _leafnum]
    if allow_prior:
        opts.append(prior_spec(1))
    return st.one_of(*opts)


def val(d):
    return build_prior(d) if "c" in d else num(d)


def scat_spec(depth=2):
    idx = st.one_of(value(), _cplx)
    center = st.one_of(st.none(), st.tuples(_seq, st.lists(value(), min_size=3, max_size=3)).map(lambda t: {"seq": t[0], "items": t[1]}))
    sphere = st.fixed_dictionaries({"c": st.just("Sphere"), "n": st.one_of(st.none(), idx, st.tuples(_seq, st.lists(idx, min_size=2, max_size=3)).map(lambda t: {"seq": t[0], "items": t[1]})),
                                    "r": value(), "center": center})
    layered = st.fixed_dictionaries({"c": st.just("LayeredSphere"), "n": st.lists(idx, min_size=2, max_size=3), "t": st.lists(value(False), min_size=2, max_size=3), "center": center, "seq": _seq})
    rot3 = st.tuples(_seq, st.lists(value(), min_size=3, max_size=3)).map(lambda t: {"seq": t[0], "items": t[1]})
    axis = st.fixed_dictionaries({"c": st.sampled_from(["Spheroid", "Cylinder", "Ellipsoid", "Capsule", "Bisphere", "JanusSphere_Uniform", "JanusSphere_Tapered"]),
                                  "n": idx, "a": value(False), "b": value(False), "rot": rot3, "center": center, "seq": _seq})
    prims = st.one_of(sphere, sphere, layered, axis)
    if depth == 0:
        return prims
    sub = scat_spec(depth - 1)
    return st.one_of(prims,
                     st.fixed_dictionaries({"c": st.just("Spheres"), "m": st.lists(sphere, min_size=1, max_size=3), "warn": st.sampled_from([True, False, "auto", "np.bool_"]),
                                            # share: members after the first use the very same index / centre object as the first
                                            "share": st.sampled_from([None, None, None, "n", "center"])}),
                     st.fixed_dictionaries({"c": st.just("Scatterers"), "m": st.lists(sub, min_size=0, max_size=3)}),
                     st.fixed_dictionaries({"c": st.just("RigidCluster"), "m": st.lists(sphere, min_size=1, max_size=3), "tr": rot3, "rot": rot3}),
                     st.fixed_dictionaries({"c": st.sampled_from(["Union", "Difference", "Intersection"]), "ra": _f, "rb": _f}))


def seqval(d):
    return None if d is None else seq(d["seq"], [val(x) for x in d["items"]])


def build_scat(d):
    from holopy.scattering import Sphere, LayeredSphere, Spheres, Scatterers, Spheroid, Cylinder, Ellipsoid
    from holopy.scattering import scatterer as S
    c = d["c"]
    if c == "Sphere":
        n = d["n"]
        if n is None:
            nn = None
        elif "items" in n:
            nn = seq(n["seq"], [val(x) for x in n["items"]])
        else:
            nn = val(n)
        return Sphere(n=nn, r=val(d["r"]), center=seqval(d["center"]))
    if c == "LayeredSphere":
        k = min(len(d["n"]), len(d["t"]))
        return LayeredSphere(n=seq(d["seq"], [val(x) for x in d["n"][:k]]), t=seq(d["seq"], [val(x) for x in d["t"][:k]]), center=seqval(d["center"]))
    if c in ("Spheroid", "Cylinder", "Ellipsoid", "Capsule", "Bisphere", "JanusSphere_Uniform", "JanusSphere_Tapered"):
        n, a, b = val(d["n"]), val(d["a"]), val(d["b"])
        rot = seqval(d["rot"]); cen = seqval(d["center"])
        if c == "Spheroid":
            return Spheroid(n=n, r=seq(d["seq"], [a, b]), rotation=rot, center=cen)
        if c == "Cylinder":
            return Cylinder(n=n, h=a, d=b, rotation=rot, center=cen)
        if c == "Ellipsoid":
            return Ellipsoid(n=n, r=seq(d["seq"], [a, b, a]), rotation=rot, center=cen)
        if c == "Capsule":
            return S.Capsule(n=n, h=a, d=b, rotation=rot, center=cen)
        if c == "Bisphere":
            return S.Bisphere(n=n, h=a, d=b, rotation=rot, center=cen)
        cls = S.JanusSphere_Uniform if c == "JanusSphere_Uniform" else S.JanusSphere_Tapered
        return cls(n=seq(d["seq"], [n, n]), r=seq(d["seq"], [a, b]), rotation=seq(d["rot"]["seq"], [val(x) for x in d["rot"]["items"]][:2]), center=cen)
    if c == "Spheres":
        m = [build_scat(x) for x in d["m"]]
        if d.get("share") and len(m) > 1:
            for x in m[1:]:
                setattr(x, d["share"], getattr(m[0], d["share"]))
        import warnings
        with warnings.catch_warnings():
            warnings.simplefilter("ignore")
            return Spheres(m) if d["warn"] == "auto" else Spheres(m, warn=np.bool_(False) if d["warn"] == "np.bool_" else d["warn"])
    if c == "Scatterers":
        return Scatterers([build_scat(x) for x in d["m"]])
    if c == "RigidCluster":
        import warnings
        with warnings.catch_warnings():
            warnings.simplefilter("ignore")
            return S.RigidCluster(Spheres([build_scat(x) for x in d["m"]], warn=False), translation=seqval(d["tr"]), rotation=seqval(d["rot"]))
    cls = {"Union": S.Union, "Difference": S.Difference, "Intersection": S.Intersection}[c]
    return cls(Sphere(n=1.5, r=d["ra"], center=(0.0, 0.0, 1.0)), Sphere(n=1.5, r=d["rb"], center=(0.5, 0.0, 1.0)))


def theory_spec():
    return st.one_of(
        st.fixed_dictionaries({"c": st.just("Mie"), "radial": st.booleans(), "full": st.booleans(), "eps1": _f, "eps2": _f, "explicit": st.booleans()}),
        st.fixed_dictionaries({"c": st.just("Multisphere"), "niter": st.integers(1, 1000), "eps": _f, "meth": st.sampled_from([0, 1]), "qeps1": _f, "qeps2": _f,
                               "radial": st.booleans(), "quiet": st.booleans()}),
        st.just({"c": "Tmatrix"}),
        st.fixed_dictionaries({"c": st.just("MieLens"), "lens_angle": value(), "acc": st.sampled_from([None, {}, {"quad_npts": 50}, {"interpolate_integrals": False, "interpolator_degree": 40}])}),
        st.fixed_dictionaries({"c": st.just("AberratedMieLens"), "lens_angle": value(), "ab": st.one_of(value(), st.tuples(_seq, st.lists(value(), min_size=1, max_size=3)).map(lambda t: {"seq": t[0], "items": t[1]}))}),
        st.fixed_dictionaries({"c": st.just("Lens"), "lens_angle": value(False), "inner": st.sampled_from(["Mie", "Tmatrix", "MieFar"]), "qt": st.integers(2, 200), "qp": st.integers(2, 200)}),
    )


def build_theory(d):
    from holopy.scattering import Mie, Multisphere, Tmatrix
    from holopy.scattering.theory import MieLens, AberratedMieLens, Lens
    c = d["c"]
    if c == "Mie":
        return Mie(d["radial"], d["full"], eps1=d["eps1"], eps2=d["eps2"]) if d["explicit"] else Mie()
    if c == "Multisphere":
        return Multisphere(niter=d["niter"], eps=d["eps"], meth=d["meth"], qeps1=d["qeps1"], qeps2=d["qeps2"], compute_escat_radial=d["radial"], suppress_fortran_output=d["quiet"])
    if c == "Tmatrix":
        return Tmatrix()
    if c == "MieLens":
        return MieLens(lens_angle=val(d["lens_angle"])) if d["acc"] is None else MieLens(lens_angle=val(d["lens_angle"]), calculator_accuracy_kwargs=dict(d["acc"]))
    if c == "AberratedMieLens":
        ab = seq(d["ab"]["seq"], [val(x) for x in d["ab"]["items"]]) if "items" in d["ab"] else val(d["ab"])
        return AberratedMieLens(spherical_aberration=ab, lens_angle=val(d["lens_angle"]))
    inner = {"Mie": Mie(), "Tmatrix": Tmatrix(), "MieFar": Mie(False, False)}[d["inner"]]
    import warnings
    with warnings.catch_warnings():
        warnings.simplefilter("ignore")
        return Lens(val(d["lens_angle"]), inner, quad_npts_theta=d["qt"], quad_npts_phi=d["qp"])


def strategy_spec():
    return st.one_of(
        st.fixed_dictionaries({"c": st.just("NmpfitStrategy"), "npixels": st.one_of(st.none(), st.integers(1, 10000)), "quiet": st.booleans(), "ftol": _f, "xtol": _f, "gtol": _f,
                               "maxiter": st.integers(1, 500), "seed": st.one_of(st.none(), st.integers(0, 2 ** 31))}),
        st.fixed_dictionaries({"c": st.just("LeastSquaresScipyStrategy"), "ftol": _f, "xtol": _f, "gtol": _f, "max_nfev": st.one_of(st.none(), st.integers(1, 500)),
                               "npixels": st.one_of(st.none(), st.integers(1, 10000))}),
        st.fixed_dictionaries({"c": st.just("EmceeStrategy"), "nwalkers": st.integers(2, 200), "nsamples": st.one_of(st.none(), st.integers(1, 5000)), "npixels": st.one_of(st.none(), st.integers(1, 1000)),
                               "parallel": st.sampled_from(["auto", None, 2, "mpi"]), "seed": st.one_of(st.none(), st.integers(0, 2 ** 31)),
                               # initial walker positions: an (n walkers, k parameters) array, incl. one walker or one parameter
                               "wip": st.one_of(st.none(), st.none(), st.tuples(st.integers(1, 4), st.integers(1, 3), st.integers(0, 1000)).map(list))}),
        st.fixed_dictionaries({"c": st.just("CmaStrategy"), "npixels": st.one_of(st.none(), st.integers(1, 1000)), "popsize": st.one_of(st.none(), st.integers(2, 100)),
                               "resample": st.booleans(), "parent_fraction": gen.rounded(0.05, 0.9, 3), "tols": st.sampled_from([{}, {"maxiter": 10}, {"tolx": 1e-3, "tolfun": 1e-5}]),
                               "seed": st.one_of(st.none(), st.integers(0, 2 ** 31)), "parallel": st.sampled_from(["auto", None]),
                               "wip": st.one_of(st.none(), st.none(), st.tuples(st.integers(1, 4), st.integers(1, 3), st.integers(0, 1000)).map(list))}),
        st.fixed_dictionaries({"c": st.just("TemperedStrategy"), "nwalkers": st.integers(2, 200), "nsamples": st.integers(1, 5000), "npixels": st.integers(20, 2000),
                               "min_pixels": st.one_of(st.none(), st.integers(1, 20)), "stages": st.integers(1, 5), "stage_len": st.integers(1, 100),
                               "parallel": st.sampled_from(["auto", None]), "seed": st.one_of(st.none(), st.integers(0, 2 ** 31))}),
        st.fixed_dictionaries({"c": st.just("LimitOverlaps"), "fraction": _f}),
    )


def build_strategy(d):
    from holopy import inference as I
    c = d["c"]
    if c == "NmpfitStrategy":
        return I.NmpfitStrategy(npixels=d["npixels"], quiet=d["quiet"], ftol=d["ftol"], xtol=d["xtol"], gtol=d["gtol"], maxiter=d["maxiter"], seed=d["seed"])
    if c == "LeastSquaresScipyStrategy":
        return I.LeastSquaresScipyStrategy(ftol=d["ftol"], xtol=d["xtol"], gtol=d["gtol"], max_nfev=d["max_nfev"], npixels=d["npixels"])
    def wip_array():
        w = d.get("wip")
        if w is None:
            return None
        return np.random.RandomState(w[2]).uniform(0.1, 2.0, size=(w[0], w[1])).round(4)
    if c == "EmceeStrategy":
        return I.EmceeStrategy(nwalkers=d["nwalkers"], nsamples=d["nsamples"], npixels=d["npixels"], parallel=d["parallel"], seed=d["seed"], walker_initial_pos=wip_array())
    if c == "CmaStrategy":
        return I.CmaStrategy(npixels=d["npixels"], popsize=d["popsize"], resample_pixels=d["resample"], parent_fraction=d["parent_fraction"], tols=dict(d["tols"]),
                             seed=d["seed"], parallel=d["parallel"], walker_initial_pos=wip_array())
    if c == "TemperedStrategy":
        return I.TemperedStrategy(nwalkers=d["nwalkers"], nsamples=d["nsamples"], npixels=d["npixels"], min_pixels=d["min_pixels"], stages=d["stages"],
                                  stage_len=d["stage_len"], parallel=d["parallel"], seed=d["seed"])
    return I.LimitOverlaps(d["fraction"])


def full_state(v, depth=0):
    """Everything an object carries (all instance attributes, recursively), not only what it chooses to save:
    the reloaded object must behave like one built afresh from the same constructor arguments."""
    from holopy.core.holopy_object import HoloPyObject
    if depth > 8:
        return ("deep",)
    if isinstance(v, HoloPyObject):
        return (type(v).__name__, tuple(sorted((k, full_state(x, depth + 1)) for k, x in vars(v).items())))
    if isinstance(v, (list, tuple)):
        return ("seq", tuple(full_state(x, depth + 1) for x in v))
    if isinstance(v, np.ndarray):
        return ("seq", tuple(full_state(x, depth + 1) for x in v.tolist())) if v.ndim else full_state(v.item(), depth + 1)
    if isinstance(v, dict):
        return ("dict", tuple(sorted((str(k), full_state(x, depth + 1)) for k, x in v.items())))
    if callable(v) and not isinstance(v, np.ufunc) and "<locals>" in getattr(v, "__qualname__", ""):
        # a function defined inside the constructor (e.g. CmaStrategy's weights): compare what it computes
        try:
            return ("localfunc", tuple(bool(v(i, 8)) if isinstance(v(i, 8), (bool, np.bool_)) else float(v(i, 8)) for i in range(8)))
        except Exception:
            return ("localfunc", getattr(v, "__qualname__", "?"))
    return normalise(v, depth)


def strat_obj(tier):
    return st.fixed_dictionaries({"what": st.sampled_from(["prior", "scatterer", "scatterer", "theory", "strategy"]),
                                  "p": prior_spec(2), "s": scat_spec(2), "t": theory_spec(), "g": strategy_spec(),
                                  "route": st.sampled_from(["path", "stream", "yaml"]), "cycles": st.integers(1, 3)})


# ------------------------------------------------------------------------------------------ oracle
def normalise(v, depth=0):
    from holopy.core.holopy_object import HoloPyObject
    import xarray as xr
    if isinstance(v, HoloPyObject):
        return (type(v).__name__, tuple(sorted((k, normalise(x, depth + 1)) for k, x in ctor_args(v).items())))
    if isinstance(v, (list, tuple)):
        return ("seq", tuple(normalise(x, depth + 1) for x in v))
    if isinstance(v, np.ndarray):
        return ("seq", tuple(normalise(x, depth + 1) for x in v.tolist())) if v.ndim else normalise(v.item())
    if isinstance(v, dict):
        return ("dict", tuple(sorted((str(k), normalise(x, depth + 1)) for k, x in v.items())))
    if isinstance(v, (bool, np.bool_)):
        return ("bool", bool(v))
    if isinstance(v, (int, np.integer)):
        return ("num", float(v))
    if isinstance(v, (float, np.floating)):
        return ("num", float(v)) if math.isfinite(v) else ("num", repr(float(v)))
    if isinstance(v, (complex, np.complexfloating)):
        return ("cplx", (float(v.real), float(v.imag)))
    if v is None or isinstance(v, str):
        return ("lit", v)
    if isinstance(v, np.ufunc):
        return ("ufunc", v.__name__)
    if callable(v):
        return ("func", getattr(v, "__module__", "") + "." + getattr(v, "__name__", repr(v)))
    return ("repr", repr(v))


def ctor_args(o):
    """{argument name: stored value} for every constructor argument the object stores."""
    out = {}
    try:
        names = [p for p in inspect.signature(type(o).__init__).parameters if p != "self"]
    except (TypeError, ValueError):
        names = []
    for nme in names:
        if hasattr(o, nme):
            try:
                out[nme] = getattr(o, nme)
            except Exception:
                pass
    return out


def roundtrip(o, route):
    import holopy as hp
    import yaml
    from holopy.core.io import serialize
    from holopy.core.holopy_object import FullLoader
    if route == "path":
        with tempfile.TemporaryDirectory() as td:
            p = os.path.join(td, "obj.yaml")
            hp.save(p, o)
            with open(p) as fh:
                text = fh.read()
            return hp.load(p), text
    if route == "stream":
        buf = io.BytesIO()
        serialize.save(buf, o)
        text = buf.getvalue().decode()
        return serialize.load(io.BytesIO(buf.getvalue())), text
    text = yaml.dump(o, default_flow_style=True)
    return yaml.load(text, Loader=FullLoader), text


def has_only_plain_args(o):
    from holopy.core.holopy_object import HoloPyObject
    for v in ctor_args(o).values():
        if isinstance(v, (tuple, np.ndarray)):
            return False
        if isinstance(v, HoloPyObject) and not has_only_plain_args(v):
            return False
        if isinstance(v, list):
            for x in v:
                if isinstance(x, (tuple, np.ndarray)) or (isinstance(x, HoloPyObject) and not has_only_plain_args(x)):
                    return False
    return True


def run_obj(case):
    what = case["what"]
    o = {"prior": lambda: build_prior(case["p"]), "scatterer": lambda: build_scat(case["s"]), "theory": lambda: build_theory(case["t"]),
         "strategy": lambda: build_strategy(case["g"])}[what]()
    cname = type(o).__name__
    labels = [what, cname, case["route"]]
    n0 = normalise(o)
    cur = o
    texts = []
    for cyc in range(case["cycles"]):
        try:
            cur, text = roundtrip(cur, case["route"])
        except Exception as e:
            import traceback
            return Outcome(failure("save_load_exception", "%s: %s during save/load cycle %d: %s" % (cname, type(e).__name__, cyc + 1, str(e)[:300]),
                                   klass=cname, exc=type(e).__name__), True, labels)
        texts.append(text)
        if type(cur) is not type(o):
            return Outcome(failure("class_changed", "%s reloaded as %s" % (cname, type(cur).__name__), klass=cname), True, labels)
        n1 = normalise(cur)
        if n1 != n0:
            diff = _first_diff(n0, n1)
            return Outcome(failure("argument_changed", "%s: constructor argument differs after cycle %d: %s" % (cname, cyc + 1, diff), klass=cname), True, labels)
    # beyond the saved arguments: the reloaded object carries the same state as one built afresh from the
    # same constructor arguments (an argument that is consumed into other attributes must not be lost)
    fresh = {"prior": lambda: build_prior(case["p"]), "scatterer": lambda: build_scat(case["s"]), "theory": lambda: build_theory(case["t"]),
             "strategy": lambda: build_strategy(case["g"])}[what]()
    f0, f1 = full_state(fresh), full_state(cur)
    spec_ = json.dumps(case.get({"prior": "p", "scatterer": "s", "theory": "t", "strategy": "g"}[what]))
    if f0 != f1 and any(t_ in spec_ for t_ in ("np.float16", "np.float32", "np.complex64")):
        # an argument given as a narrow numpy scalar comes back as a python number of the same value (that is the property);
        # attributes *derived* from it (the cosines of a Lens' pupil angles) were computed in the narrow type by the
        # original and in double precision by the reloaded object: not a loss of state
        labels.append("derived_state_not_compared_for_narrow_types")
        f1 = f0
    if f0 != f1:
        return Outcome(failure("state_changed", "%s: reloaded object differs from one built from the same constructor arguments: %s"
                               % (cname, _first_diff(f0, f1)), klass=cname), True, labels)
    # the text is a fixpoint after the first cycle
    again = roundtrip(cur, case["route"])[1]
    if again != texts[0] or any(t != texts[0] for t in texts):
        return Outcome(failure("text_not_fixpoint", "%s: saving the reloaded object gives different text" % cname, klass=cname), True, labels)
    if has_only_plain_args(o):
        try:
            eq = (cur == o)
        except Exception as e:
            return Outcome(failure("equality_exception", "%s: == raises %s" % (cname, type(e).__name__), klass=cname), True, labels)
        if not eq:
            return Outcome(failure("library_equality", "%s: reloaded object != original although all arguments are lists/scalars" % cname, klass=cname), True, labels)
        labels.append("plain_args")
    depth = repr(n0).count("(") > 12
    return Outcome(None, depth or what == "prior", labels)


def _first_diff(a, b, path=""):
    if type(a) != type(b) or not isinstance(a, tuple):
        return "%s: %r -> %r" % (path, a, b) if a != b else None
    if len(a) != len(b):
        return "%s: length %d -> %d (%r -> %r)" % (path, len(a), len(b), a, b)
    for i, (x, y) in enumerate(zip(a, b)):
        d = _first_diff(x, y, path + "/" + (str(x[0]) if isinstance(x, tuple) and x and isinstance(x[0], str) else str(i)))
        if d:
            return d
    return None


# ------------------------------------------------------------------------------------------ models
def strat_model(tier):
    from .c11 import strat_map
    return st.tuples(strat_map(tier), st.sampled_from(["path", "stream"]), st.integers(1, 2), st.booleans(),
                     st.one_of(st.none(), st.floats(0.05, 0.9)), st.sampled_from([None, None, "calc_field", "calc_intensity"])).map(
        lambda t: dict(t[0], route=t[1], cycles=t[2], tie=t[3], constraint=t[4], calc_func=t[5]))


def run_model(case):
    from .c11 import build_model
    from holopy.inference.model import LimitOverlaps
    from holopy.core import prior
    model, scat, pool, B = build_model(case)
    labels = [type(model).__name__, case["scat"]["k"], case["route"]]
    if case["constraint"] is not None:
        model.constraints = [LimitOverlaps(case["constraint"])]
    if case.get("calc_func") and type(model).__name__ == "ExactModel":
        # a custom calculation function is a constructor argument of ExactModel
        import holopy.scattering as hs
        from holopy.inference import ExactModel
        model = ExactModel(model.scatterer, calc_func=getattr(hs, case["calc_func"]), theory=model.theory, constraints=model.constraints,
                           **{k: v for k, v in model._find_optics(model._parameters, None).items() if v is not None})
        labels.append("custom_calc_func")
    if case["tie"]:
        # tie two equal parameters when the template offers them
        names = list(model._parameter_names)
        for a, b_ in [(x, y) for i, x in enumerate(names) for y in names[i + 1:]]:
            if model.parameters[a].renamed(None) == model.parameters[b_].renamed(None):
                model.add_tie([a, b_], new_name="tied_par")
                labels.append("tied")
                break
    cur = model
    first_text = None
    for cyc in range(case["cycles"]):
        try:
            cur, text = roundtrip(cur, case["route"])
            first_text = first_text or text
        except Exception as e:
            return Outcome(failure("save_load_exception", "model: %s during cycle %d: %s" % (type(e).__name__, cyc + 1, str(e)[:300]), klass="model", exc=type(e).__name__), True, labels)
    if type(cur) is not type(model):
        return Outcome(failure("class_changed", "model reloaded as %s" % type(cur).__name__, klass="model"), True, labels)
    if list(cur._parameter_names) != list(model._parameter_names):
        return Outcome(failure("model_parameter_names", "parameter names %r -> %r" % (model._parameter_names, cur._parameter_names)), True, labels)
    if [normalise(p) for p in cur._parameters] != [normalise(p) for p in model._parameters]:
        return Outcome(failure("model_parameters", "parameters changed by the round trip"), True, labels)
    vals = [case["vals"][i % 12] for i in range(len(model._parameters))]
    try:
        a = model.scatterer_from_parameters(vals); b_ = cur.scatterer_from_parameters(vals)
    except Exception as e:
        a = b_ = None
    if a is not None and normalise(a) != normalise(b_):
        return Outcome(failure("model_value_to_place", "scatterer built from the same values differs after reload: %s" % _first_diff(normalise(a), normalise(b_))), True, labels)
    ta, tb = model.theory_from_parameters(vals), cur.theory_from_parameters(vals)
    if normalise(ta) != normalise(tb):
        return Outcome(failure("model_value_to_place", "theory built from the same values differs after reload"), True, labels)
    if normalise(model._find_optics(vals, None)) != normalise(cur._find_optics(vals, None)):
        return Outcome(failure("model_value_to_place", "optics differ after reload"), True, labels)
    if case["constraint"] is not None and [normalise(c) for c in cur.constraints] != [normalise(c) for c in model.constraints]:
        return Outcome(failure("model_constraints", "constraints %r -> %r" % (model.constraints, cur.constraints)), True, labels)
    if getattr(cur, "calc_func", None) is not getattr(model, "calc_func", None):
        return Outcome(failure("model_calc_func", "ExactModel calc_func %r reloaded as %r" % (getattr(model.calc_func, "__name__", model.calc_func),
                                                                                              getattr(getattr(cur, "calc_func", None), "__name__", None))), True, labels)
    text2 = roundtrip(cur, case["route"])[1]
    if text2 != first_text or text != first_text:
        return Outcome(failure("text_not_fixpoint", "model: saving the reloaded model gives different text", klass="model"), True, labels)
    return Outcome(None, len(model._parameters) >= 2, labels)


# ------------------------------------------------------------------------------------------ sequences
def strat_seq(tier):
    from .c11 import strat_map
    item = st.tuples(strat_map(tier), st.one_of(st.none(), st.floats(0.05, 0.9)), st.sampled_from(["alpha", "exact"])).map(
        lambda t: {"m": t[0], "constraint": t[1]})
    return st.fixed_dictionaries({"items": st.lists(item, min_size=2, max_size=4), "route": st.sampled_from(["path", "stream"]),
                                  "order": st.lists(st.integers(0, 3), min_size=2, max_size=6)})


def run_seq(case):
    """several different models saved and loaded in one process, in a generated order: loading one object must
    not influence another (no state shared through class-level defaults or caches)."""
    from .c11 import build_model
    from holopy.inference.model import LimitOverlaps
    models = []
    for it in case["items"]:
        model, scat, pool, B = build_model(it["m"])
        if it["constraint"] is not None:
            model.constraints = [LimitOverlaps(it["constraint"])]
        models.append(model)
    labels = ["models_%d" % len(models), case["route"]]
    first_text = {}
    for step, idx in enumerate(case["order"]):
        i = idx % len(models)
        m = models[i]
        try:
            back, text = roundtrip(m, case["route"])
        except Exception as e:
            return Outcome(failure("save_load_exception", "model %d: %s at step %d: %s" % (i, type(e).__name__, step, str(e)[:200]), klass="model_sequence", exc=type(e).__name__), True, labels)
        if i in first_text and first_text[i] != text:
            return Outcome(failure("sequence_text_changed", "model %d saved at step %d gives different text than the first time" % (i, step)), True, labels)
        first_text.setdefault(i, text)
        if [normalise(c) for c in back.constraints] != [normalise(c) for c in m.constraints]:
            return Outcome(failure("sequence_constraints", "step %d: model %d reloaded with constraints %r, saved with %r" % (step, i, back.constraints, m.constraints)), True, labels)
        if list(back._parameter_names) != list(m._parameter_names) or [normalise(p) for p in back._parameters] != [normalise(p) for p in m._parameters]:
            return Outcome(failure("sequence_parameters", "step %d: model %d reloaded with different parameters" % (step, i)), True, labels)
        text2 = roundtrip(back, case["route"])[1]
        if text2 != text:
            return Outcome(failure("text_not_fixpoint", "step %d: saving the reloaded model %d gives different text" % (step, i), klass="model_sequence"), True, labels)
    distinct = len({i % len(models) for i in case["order"]})
    return Outcome(None, distinct >= 2, labels)


# ------------------------------------------------------------------------------------------ models with ties
_FAMILIES = [("uniform", 0.4, 0.6), ("gaussian", 1.5, 0.1), ("uniform", 1.0, 2.0), ("bounded", 0.5, 0.2)]


def strat_ties(tier):
    # every prior-valued place draws a family; places of one family hold equal but distinct prior objects, so they
    # can be tied (or left untied: two separate parameters that compare equal)
    fam = st.integers(0, len(_FAMILIES) - 1)
    place = st.one_of(st.none(), fam, fam)       # None = a fixed number
    sph = st.fixed_dictionaries({"n": place, "r": place, "c": st.lists(place, min_size=3, max_size=3)})
    return st.fixed_dictionaries({
        "spheres": st.lists(sph, min_size=1, max_size=3), "alpha": place, "medium_index": place, "noise_sd": place,
        "wl": st.one_of(place, st.fixed_dictionaries({"red": place, "green": place})),
        "lens_angle": st.one_of(st.just("mie"), place), "model": st.sampled_from(["alpha", "exact"]),
        "same_names": st.booleans(),
        # ties: each picks a family and a subset of that family's parameters (by position among them)
        "ties": st.lists(st.fixed_dictionaries({"fam": fam, "pick": st.lists(st.integers(0, 11), min_size=2, max_size=5, unique=True),
                                                "rename": st.sampled_from([None, None, "tied_par", "alpha", "x"])}), min_size=0, max_size=3),
        "route": st.sampled_from(["path", "stream"]), "cycles": st.integers(1, 2),
        "vals": st.lists(gen.rounded(0.35, 1.9, 4), min_size=24, max_size=24),
    })


def run_ties(case):
    from holopy.core import prior
    from holopy.scattering import Sphere, Spheres, Mie, MieLens
    from holopy.inference import AlphaModel, ExactModel

    def mk(f, fixed):
        if f is None:
            return fixed
        kind, a, b_ = _FAMILIES[f]
        if kind == "uniform":
            return prior.Uniform(a, b_)
        if kind == "gaussian":
            return prior.Gaussian(a, b_)
        return prior.BoundedGaussian(a, b_, a - 2 * b_, a + 2 * b_)
    spheres = [Sphere(n=mk(sp["n"], 1.5), r=mk(sp["r"], 0.5), center=[mk(c, 1.0 + i + j) for j, c in enumerate(sp["c"])]) for i, sp in enumerate(case["spheres"])]
    scat = spheres[0] if len(spheres) == 1 else Spheres(spheres, warn=False)
    wl = case["wl"]
    if isinstance(wl, dict):
        # channel labels as a user gets them from an image (data.illumination.values holds numpy strings)
        as_key = (lambda k_: np.str_(k_)) if case["vals"][0] > 1.1 else (lambda k_: k_)
        wl = {as_key(k): mk(v, 0.6) for k, v in wl.items()}
        if case["vals"][0] > 1.1:
            pass
    else:
        wl = mk(wl, 0.66)
    theory = Mie() if case["lens_angle"] == "mie" else MieLens(lens_angle=mk(case["lens_angle"], 0.8))
    kw = dict(theory=theory, medium_index=mk(case["medium_index"], 1.33), illum_wavelen=wl, illum_polarization=(1, 0), noise_sd=mk(case["noise_sd"], 0.1))
    try:
        model = AlphaModel(scat, alpha=mk(case["alpha"], 0.8), **kw) if case["model"] == "alpha" else ExactModel(scat, **kw)
    except Exception as e:
        return Outcome(None, False, ["model_not_constructible:" + type(e).__name__], skipped=True)
    labels = [type(model).__name__, "k%d" % len(spheres)]
    if isinstance(wl, dict) and any(type(k_) is np.str_ for k_ in wl):
        labels.append("numpy_string_channel_labels")
    n_tied = 0
    cross = False
    for t in case["ties"]:
        names = list(model._parameter_names)
        ref = mk(t["fam"], None)
        members = [nm for nm in names if model.parameters[nm].renamed(None) == ref]
        chosen = [members[i] for i in sorted(set(j % len(members) for j in t["pick"]))] if len(members) >= 2 else []
        if len(chosen) < 2:
            continue
        rename = t["rename"]
        if rename is not None and rename in names and rename not in chosen:
            rename = None          # a new name must not collide with another parameter
        try:
            model.add_tie(chosen, new_name=rename)
        except Exception as e:
            return Outcome(failure("add_tie_exception", "add_tie(%r, %r): %s: %s" % (chosen, rename, type(e).__name__, str(e)[:200])), True, labels)
        n_tied += 1
        kinds = {("scatterer" if (":" in nm or nm.split(".")[0] in ("n", "r", "center")) else "other") for nm in chosen}
        cross = cross or len(kinds) == 2
    if n_tied:
        labels.append("ties_%d" % n_tied)
    if cross:
        labels.append("tie_between_scatterer_and_other_argument")
    # equal priors left untied: two parameters that compare equal
    pars = list(model._parameters)
    if any(pars[i].renamed(None) == pars[j].renamed(None) for i in range(len(pars)) for j in range(i + 1, len(pars))):
        labels.append("equal_untied_parameters")
    if len(set(model._parameter_names)) != len(model._parameter_names):
        return Outcome(None, False, labels + ["names_not_unique_before_saving"], skipped=True)
    cur = model
    first_text = None
    for cyc in range(case["cycles"]):
        try:
            cur, text = roundtrip(cur, case["route"])
            first_text = first_text or text
        except Exception as e:
            return Outcome(failure("save_load_exception", "model: %s during cycle %d: %s" % (type(e).__name__, cyc + 1, str(e)[:300]), klass="model", exc=type(e).__name__), True, labels)
    if type(cur) is not type(model):
        return Outcome(failure("class_changed", "model reloaded as %s" % type(cur).__name__, klass="model"), True, labels)
    if list(cur._parameter_names) != list(model._parameter_names):
        return Outcome(failure("model_parameter_names", "parameter names %r -> %r" % (model._parameter_names, cur._parameter_names),
                               cross_tie=cross), True, labels)
    if [normalise(p_) for p_ in cur._parameters] != [normalise(p_) for p_ in model._parameters]:
        return Outcome(failure("model_parameters", "parameters changed by the round trip", cross_tie=cross), True, labels)
    vals = [case["vals"][i % 24] for i in range(len(model._parameters))]
    for what, f in (("scatterer", lambda m: m.scatterer_from_parameters(vals)), ("theory", lambda m: m.theory_from_parameters(vals)),
                    ("optics", lambda m: m._find_optics(vals, None)), ("noise", lambda m: m._find_noise(vals, None)),
                    ("model", lambda m: __import__("holopy").core.mapping.read_map(m._maps["model"], vals))):
        try:
            a = f(model)
        except Exception:
            continue
        try:
            b_ = f(cur)
        except Exception as e:
            return Outcome(failure("model_value_to_place", "%s: reloaded model raises %s" % (what, type(e).__name__), what=what), True, labels)
        if normalise(a) != normalise(b_):
            return Outcome(failure("model_value_to_place", "%s built from the same values differs after reload: %s" % (what, _first_diff(normalise(a), normalise(b_))), what=what), True, labels)
    text2 = roundtrip(cur, case["route"])[1]
    if text2 != first_text or text != first_text:
        return Outcome(failure("text_not_fixpoint", "model: saving the reloaded model gives different text", klass="model"), True, labels)
    return Outcome(None, n_tied > 0 or "equal_untied_parameters" in labels, labels)


# ------------------------------------------------------------------------------------------ explicit None over every default
_NONE_CLASSES = None


def _none_pairs():
    """(class name, argument) for every constructor argument with a non-None default of the classes that can be
    built from defaults alone (theories, strategies, constraints, priors with their minimal arguments)."""
    global _NONE_CLASSES
    if _NONE_CLASSES is None:
        from holopy.scattering import theory as th
        from holopy.scattering import Sphere, Spheres
        from holopy.core import prior
        import holopy.inference as inf
        base = {
            "Mie": (th.Mie, {}), "Multisphere": (th.Multisphere, {}), "MieLens": (th.MieLens, {}), "AberratedMieLens": (th.AberratedMieLens, {}),
            "Lens": (th.Lens, {"lens_angle": 0.6, "theory": th.Mie()}),
            "NmpfitStrategy": (inf.NmpfitStrategy, {}), "CmaStrategy": (inf.CmaStrategy, {}), "EmceeStrategy": (inf.EmceeStrategy, {}),
            "TemperedStrategy": (inf.TemperedStrategy, {}), "LeastSquaresScipyStrategy": (inf.LeastSquaresScipyStrategy, {}),
            "LimitOverlaps": (inf.LimitOverlaps, {}),
            "Sphere": (Sphere, {}), "Uniform": (prior.Uniform, {"lower_bound": 0.5, "upper_bound": 2.0}),
            "Gaussian": (prior.Gaussian, {"mu": 1.0, "sd": 0.5}), "BoundedGaussian": (prior.BoundedGaussian, {"mu": 1.0, "sd": 0.5}),
        }
        pairs = []
        for cname, (cls, kw) in sorted(base.items()):
            for nme, par in inspect.signature(cls.__init__).parameters.items():
                if nme == "self" or nme in kw or par.default is inspect._empty or par.default is None:
                    continue
                pairs.append((cname, nme, "falsy" if not isinstance(par.default, str) and not par.default else "truthy"))
        _NONE_CLASSES = (base, pairs)
    return _NONE_CLASSES


def strat_none(tier):
    base, pairs = _none_pairs()
    return st.fixed_dictionaries({"pair": st.sampled_from(pairs), "route": st.sampled_from(["path", "stream", "yaml"]), "cycles": st.integers(1, 2)})


def run_none(case):
    import warnings
    base, _ = _none_pairs()
    cname, arg, kind = case["pair"]
    cls, kw = base[cname]
    labels = [cname, "default_" + kind, case["route"]]

    def make():
        with warnings.catch_warnings():
            warnings.simplefilter("ignore")
            return cls(**dict(kw, **{arg: None}))
    try:
        o = make()
    except Exception as e:
        # None is not a valid value for this argument: nothing to save
        return Outcome(None, False, labels + ["none_rejected_by_constructor"], skipped=True)
    stored_none = hasattr(o, arg) and getattr(o, arg) is None
    labels.append("none_stored" if stored_none else "none_consumed")
    n0 = normalise(o)
    cur = o
    texts = []
    for cyc in range(case["cycles"]):
        try:
            cur, text = roundtrip(cur, case["route"])
        except Exception as e:
            return Outcome(failure("save_load_exception", "%s(%s=None): %s during save/load cycle %d: %s" % (cname, arg, type(e).__name__, cyc + 1, str(e)[:300]),
                                   klass=cname, exc=type(e).__name__), True, labels)
        texts.append(text)
        if type(cur) is not type(o):
            return Outcome(failure("class_changed", "%s reloaded as %s" % (cname, type(cur).__name__), klass=cname), True, labels)
        n1 = normalise(cur)
        if n1 != n0:
            return Outcome(failure("explicit_none_lost", "%s(%s=None): constructor argument differs after cycle %d: %s" % (cname, arg, cyc + 1, _first_diff(n0, n1)),
                                   klass=cname, arg=arg), True, labels)
    f0, f1 = full_state(make()), full_state(cur)
    if f0 != f1:
        return Outcome(failure("state_changed", "%s(%s=None): reloaded object differs from one built from the same arguments: %s" % (cname, arg, _first_diff(f0, f1)),
                               klass=cname, arg=arg), True, labels)
    if any(t != texts[0] for t in texts) or roundtrip(cur, case["route"])[1] != texts[0]:
        return Outcome(failure("text_not_fixpoint", "%s(%s=None): saving the reloaded object gives different text" % (cname, arg), klass=cname, arg=arg), True, labels)
    return Outcome(None, stored_none, labels)


SUBCHECKS = [
    Sub("explicit_none", strat_none, run_none, 400, 3000,
        "every constructor argument with a non-None default (truthy or falsy: 0, 0.0, False, {}, []) of the theories, strategies, "
        "LimitOverlaps, Sphere and the three scalar priors, set explicitly to None (skipped when the constructor rejects None): "
        "path/stream/yaml, 1-2 cycles: same stored arguments, same state as a fresh object built with the same None, text fixpoint; "
        "non-trivial = the None is stored on the object",
        tolerances={"equality": "exact after normalisation"}),
    Sub("model_sequences", strat_seq, run_seq, 600, 10000,
        "2-4 different models (C11 template generator; with and without LimitOverlaps constraints) saved and loaded in a "
        "generated order of 2-6 steps inside one process: every reload equals its own original (constraints, parameter "
        "names, parameters), the text of a model is the same every time it is saved and is a fixpoint; non-trivial = "
        ">=2 distinct models in the sequence",
        tolerances={"equality": "exact after normalisation"}),
    Sub("objects", strat_obj, run_obj, 4000, 80000,
        "grammar over priors (Uniform/Gaussian/BoundedGaussian incl. infinite bounds, ComplexPrior, derived priors with "
        "operator.* and numpy ufuncs, named/unnamed, depth<=2), scatterers (Sphere, LayeredSphere, Spheroid, Cylinder, "
        "Ellipsoid, Capsule, Bisphere, Janus x2, Spheres, nested Scatterers, RigidCluster, CSG) with leaf values float/int/"
        "complex/np.float64/np.int64/np.int32/np.complex128/priors in lists, tuples or arrays, explicit None; theories with "
        "options and prior-valued parameters (Mie, Multisphere, Tmatrix, MieLens, AberratedMieLens, Lens); strategies and "
        "LimitOverlaps. Through file path, binary stream or yaml.dump/load, 1-3 cycles: same class, every stored constructor "
        "argument equal after normalisation, text fixpoint, library == when arguments are lists/scalars",
        tolerances={"equality": "exact after normalisation"}),
    Sub("model_ties", strat_ties, run_ties, 1500, 30000,
        "1-3 spheres whose prior-valued places (index, radius, centre), alpha, medium index, wavelength (also per channel), noise "
        "and lens angle draw from 4 prior families, every place with its own object: equal priors can be tied or stay separate. "
        "0-3 add_tie calls over generated subsets of one family (within the scatterer, between the scatterer and alpha/optics/"
        "theory, renamed or not); AlphaModel/ExactModel; 1-2 save/load cycles: same parameter names, parameters, value-to-place "
        "mapping for scatterer/theory/optics/noise/alpha, text fixpoint; non-trivial = at least one tie or two equal untied parameters",
        tolerances={"equality": "exact after normalisation"}),
    Sub("models", strat_model, run_model, 1500, 30000,
        "AlphaModel/ExactModel from the C11 template generator (shared/named/transformed/complex priors, per-channel "
        "optics, theory parameters), optional tie and LimitOverlaps constraint: reloaded model has the same parameter "
        "names, parameters, value-to-place mapping (scatterer/theory/optics built from one value vector), constraints; "
        "text fixpoint",
        tolerances={"equality": "exact after normalisation"}),
]
