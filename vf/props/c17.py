"""C17 — propagation is a norm-bounded linear group action; fft/ifft are inverses."""
import math

import numpy as np
from hypothesis import strategies as st

from ..runner import Sub, Outcome, failure, TOLX
from .. import gen

PROPERTY = "C17"
ASSUMPTIONS = [
    "images are (z=1, x, y) DataArrays made with the library's own constructor, coordinates starting at 0 (the "
    "Fourier-space coordinates carry spacing and extent but no origin)",
    "P(-d) o P(d) = identity and energy equality are asserted only when the harness's own evaluation of "
    "1-(L f_m)^2-(L f_n)^2 is >= 0 at every frequency of the grid (no evanescent component); otherwise only the "
    "energy bound and the composition law are asserted",
    "image values are derived from a seeded numpy generator whose seed is part of the case",
]


def make_image(shape, spacing, seed, complex_=True, nm=1.33, wl=0.66, extra=None, name="img"):
    from holopy.core.metadata import data_grid
    rng = np.random.RandomState(seed % (2 ** 31))
    shp = tuple(shape) + ((len(extra[1]),) if extra else ())
    a = rng.standard_normal(shp)
    if complex_:
        a = a + 1j * rng.standard_normal(shp)
    return data_grid(a, spacing=tuple(spacing), medium_index=nm, illum_wavelen=wl, illum_polarization=(1, 0),
                     noise_sd=0.05, name=name, extra_dims={extra[0]: extra[1]} if extra else None)


# ------------------------------------------------------------------------------------------ 1
def enum_shapes(tier):
    cases = []
    for nx in range(2, 10):
        for ny in range(2, 10):
            for rep in range(3):
                cases.append({"shape": [nx, ny], "spacing": [0.1 + 0.03 * rep, 0.1 + 0.07 * rep if rep else 0.1],
                              "seed": 1000 * nx + 10 * ny + rep, "complex": rep != 1, "shift": True, "extra": None})
    return cases


def strat_fft(tier):
    side = st.integers(2, 64)
    return st.fixed_dictionaries({
        "shape": st.tuples(side, side).map(list),
        "spacing": st.tuples(gen.logu(1e-3, 1e3), gen.logu(1e-3, 1e3)).map(list),
        "seed": st.integers(0, 2 ** 31 - 1), "complex": st.booleans(), "shift": st.booleans(),
        "extra": st.sampled_from([None, None, ["illumination", ["r", "g"]], ["time", [0.0, 1.0, 2.0]]]),
        # where the image begins, in pixel spacings (a crop of a larger frame, a stage offset)
        "origin_px": st.one_of(st.just([0.0, 0.0]), st.tuples(st.floats(-50, 50), st.floats(-50, 50)).map(list),
                               st.tuples(st.integers(-30, 30), st.integers(-30, 30)).map(lambda t: [float(t[0]), float(t[1])])),
    })


def run_fft(case):
    from holopy.core.process import fft, ifft
    a = make_image(case["shape"], case["spacing"], case["seed"], case["complex"], extra=case["extra"])
    opx = case.get("origin_px", [0.0, 0.0])
    if opx[0] or opx[1]:
        a = a.assign_coords(x=a.x.values + opx[0] * case["spacing"][0], y=a.y.values + opx[1] * case["spacing"][1])
    labels = ["odd" if (case["shape"][0] % 2 or case["shape"][1] % 2) else "even",
              "square" if case["shape"][0] == case["shape"][1] else "nonsquare", "shift" if case["shift"] else "noshift"]
    if case["extra"]:
        labels.append("extra_dim")
    if opx[0] or opx[1]:
        labels.append("shifted_origin")
    F = fft(a, shift=case["shift"])
    if "m" not in F.dims or "n" not in F.dims or F.sizes["m"] != case["shape"][0] or F.sizes["n"] != case["shape"][1]:
        return Outcome(failure("fft_dims", "fft result dims %r sizes %r" % (F.dims, dict(F.sizes))), True, labels)
    # forward transform is the documented one: numpy fft2 over (x, y) (+ fftshift)
    want = np.fft.fft2(a.values, axes=[a.dims.index("x"), a.dims.index("y")])
    if case["shift"]:
        want = np.fft.fftshift(want, axes=[a.dims.index("x"), a.dims.index("y")])
    if np.abs(F.values - want).max() > 1e-12 * np.abs(want).max():
        return Outcome(failure("fft_values", "fft differs from numpy fft2"), True, labels)
    # frequency axes span +-1/(2*spacing)
    for ax, sp in (("m", case["spacing"][0]), ("n", case["spacing"][1])):
        c = F.coords[ax].values
        if abs(c[0] + 1 / (2 * sp)) > 1e-9 / sp or abs(c[-1] - 1 / (2 * sp)) > 1e-9 / sp:
            return Outcome(failure("fft_coordinates", "frequency axis %s spans [%g, %g], expected +-%g" % (ax, c[0], c[-1], 1 / (2 * sp))), True, labels)
    b = ifft(F, shift=case["shift"])
    if set(b.dims) != set(a.dims):
        return Outcome(failure("ifft_dims", "ifft(fft(a)) has dims %r, a has %r" % (b.dims, a.dims)), True, labels)
    b = b.transpose(*a.dims)
    scale = np.abs(a.values).max()
    err = np.abs(b.values - a.values).max() / scale
    if not np.isfinite(err) or err > 1e-12 * TOLX:
        return Outcome(failure("inverse_pair", "ifft(fft(a)) differs from a by %.3g (rel) for shape %r, shift=%s" % (err, case["shape"], case["shift"]),
                               odd=labels[0] == "odd", shift=case["shift"]), True, labels)
    for cn in ("x", "y"):
        ca, cb = a.coords[cn].values, b.coords[cn].values
        if ca.shape != cb.shape or np.abs(ca - cb).max() > 1e-12 * max(abs(ca).max(), abs(ca[-1] - ca[0]), 1e-300):
            return Outcome(failure("inverse_pair_coordinates", "coordinate %s not recovered: %r vs %r" % (cn, cb[:3].tolist(), ca[:3].tolist())), True, labels)
    for cn in a.coords:
        if cn not in ("x", "y") and not np.array_equal(np.asarray(a.coords[cn].values), np.asarray(b.coords[cn].values)):
            return Outcome(failure("inverse_pair_coordinates", "coordinate %s changed" % cn), True, labels)
    if b.name != a.name:
        return Outcome(failure("inverse_pair_name", "name %r != %r" % (b.name, a.name)), True, labels)
    if set(b.attrs) != set(a.attrs) or any(repr(b.attrs[k]) != repr(a.attrs[k]) for k in a.attrs):
        return Outcome(failure("inverse_pair_attrs", "attrs changed"), True, labels)
    nontrivial = labels[0] == "odd" or labels[1] == "nonsquare"
    return Outcome(None, nontrivial, labels, metrics={"inverse_rel": err})


# ------------------------------------------------------------------------------------------ 2
def strat_prop(tier):
    side = st.integers(2, 24 if tier == "quick" else 64)
    dist = st.tuples(gen.logu(1e-2, 1e3), st.sampled_from([1.0, -1.0])).map(lambda t: t[0] * t[1])
    return st.fixed_dictionaries({
        "shape": st.tuples(side, side).map(list),
        # pixel spacing in units of the medium wavelength: both sides of 1/2 and of 1/sqrt(2)
        "sp": st.tuples(gen.logu(0.1, 5.0), st.one_of(st.just(None), gen.logu(0.1, 5.0))).map(list),
        "nm": st.sampled_from([1.0, 1.33, 1.5]), "wl": gen.rounded(0.3, 1.0, 4),
        # length unit: the same physical configuration expressed in metres ... nanometres (HoloPy is unit-agnostic)
        "unit": st.sampled_from([1.0, 1.0, 1e-6, 1e-9, 1e3, 1e-3, 1e6]),
        "seed": st.integers(0, 2 ** 31 - 1), "complex": st.booleans(),
        "d1": dist, "d2": dist,
        "ab": st.tuples(st.floats(-3, 3), st.floats(-3, 3), st.floats(-3, 3), st.floats(-3, 3)).map(list),
        "rel": st.sampled_from(["zero", "compose", "inverse", "linear", "energy", "list", "cfsp", "gradient", "metadata"]),
        "k": st.integers(2, 5),
        "optics_from": st.sampled_from(["data", "args"]),
    })


def run_prop(case):
    import xarray as xr
    from holopy.propagation import propagate
    from holopy.core.metadata import update_metadata
    nm, wl = case["nm"], case["wl"] * case.get("unit", 1.0)
    lam = wl / nm
    spx = case["sp"][0] * lam
    spy = (case["sp"][1] if case["sp"][1] else case["sp"][0]) * lam
    a = make_image(case["shape"], (spx, spy), case["seed"], case["complex"], nm=nm, wl=wl)
    b = make_image(case["shape"], (spx, spy), case["seed"] + 17, case["complex"], nm=nm, wl=wl)
    kw = {}
    if case["optics_from"] == "args":
        a = update_metadata(a)  # keep as is
        kw = dict(medium_index=nm, illum_wavelen=wl)
    d1, d2 = case["d1"] * lam, case["d2"] * lam
    nx, ny = case["shape"]
    # harness-side decision: is any frequency of the grid evanescent?
    fm = np.linspace(-1 / (2 * spx), 1 / (2 * spx), nx)
    fn = np.linspace(-1 / (2 * spy), 1 / (2 * spy), ny)
    root = 1 - (lam * fm[:, None]) ** 2 - (lam * fn[None, :]) ** 2
    evan = bool((root < 0).any())
    rel = case["rel"]
    labels = [rel, "evanescent" if evan else "propagating", "odd" if (nx % 2 or ny % 2) else "even",
              "square" if nx == ny else "nonsquare", "unit_%g" % case.get("unit", 1.0)]
    nrm = lambda v: float(np.sqrt((np.abs(np.asarray(v)) ** 2).sum()))
    na = nrm(a.values)

    def P(img, d, **extra):
        return propagate(img, d, **kw, **extra)

    def vals(r):
        return r.transpose("z", "x", "y").values if "z" in r.dims else r.transpose("x", "y").values[None]

    met = {}
    if rel == "zero":
        r = P(a, 0)
        if not np.array_equal(vals(r), vals(a)):
            return Outcome(failure("propagate_zero", "propagating by 0 changes the image"), True, labels)
        r = P(a, 0.0)
        if not np.array_equal(vals(r), vals(a)):
            return Outcome(failure("propagate_zero", "propagating by 0.0 changes the image"), True, labels)
    elif rel == "compose":
        r12 = P(P(a, d1), d2)
        rs = P(a, d1 + d2) if d1 + d2 != 0 else a
        err = nrm(vals(r12) - vals(rs)) / na
        met["compose"] = err
        if not np.isfinite(err) or err > 1e-10 * (1 + (abs(d1) + abs(d2)) / lam * 1e-3) * TOLX:
            return Outcome(failure("composition", "P(d2)P(d1) differs from P(d1+d2) by %.3g (rel norm); d1=%.4g d2=%.4g wavelengths" % (err, case["d1"], case["d2"])), True, labels)
    elif rel == "inverse":
        r = P(P(a, d1), -d1)
        err = nrm(vals(r) - vals(a)) / na
        met["inverse_evan" if evan else "inverse"] = err
        if not evan and (not np.isfinite(err) or err > 1e-10 * (1 + abs(d1) / lam * 1e-3) * TOLX):
            return Outcome(failure("inverse", "P(-d)P(d) differs from the identity by %.3g although no frequency is evanescent" % err), True, labels)
        if nrm(vals(r)) > na * (1 + 1e-10):
            return Outcome(failure("energy_increase", "P(-d)P(d) increased the energy"), True, labels)
    elif rel == "linear":
        al = complex(case["ab"][0], case["ab"][1]) if case["complex"] else case["ab"][0]
        be = complex(case["ab"][2], case["ab"][3]) if case["complex"] else case["ab"][2]
        comb = a * al + b * be
        comb.attrs = a.attrs
        lhs = vals(P(comb, d1))
        rhs = al * vals(P(a, d1)) + be * vals(P(b, d1))
        err = nrm(lhs - rhs) / max(nrm(rhs), 1e-300)
        met["linearity"] = err
        if not np.isfinite(err) or err > 1e-11 * TOLX:
            return Outcome(failure("linearity", "P(a*A+b*B) differs from a*P(A)+b*P(B) by %.3g" % err), True, labels)
    elif rel == "energy":
        r = P(a, d1)
        e = nrm(vals(r)) / na
        met["energy_ratio_minus_1"] = e - 1
        if not (e <= 1 + 1e-12 * TOLX):
            return Outcome(failure("energy_increase", "propagation increased the total energy by a factor %.15g" % e ** 2), True, labels)
        if not evan and not (abs(e - 1) <= 1e-11 * TOLX):
            return Outcome(failure("energy_not_conserved", "no evanescent frequency but energy ratio %.15g" % e ** 2), True, labels)
        if not np.all(np.isfinite(vals(r))):
            return Outcome(failure("nonfinite", "propagated image not finite"), True, labels)
    elif rel == "list":
        ds = [d1, 0.0, d2][: case["k"]] if case["k"] <= 3 else [d1, d2, 0.0, d1 * 0.5, d2 * 1.5][: case["k"]]
        r = P(a, ds)
        if "z" not in r.dims or r.sizes["z"] != len(ds):
            return Outcome(failure("list_shape", "list of %d distances gives dims %r sizes %r" % (len(ds), r.dims, dict(r.sizes))), True, labels)
        zs = r.z.values
        for i, dd in enumerate(ds):
            single = vals(P(a, dd))[0]
            # locate the slice by its z label
            j0 = int(np.argmin(np.abs(zs - dd)))
            idx = [j0] if abs(zs[j0] - dd) <= 1e-12 * max(1.0, abs(dd)) else []
            if not idx:
                return Outcome(failure("list_z_labels", "z coordinate %r does not contain distance %r" % (zs.tolist(), dd)), True, labels)
            got = vals(r)[idx[0]]
            err = nrm(got - single) / na
            if not (err <= 1e-12 * TOLX):
                return Outcome(failure("list_vs_single", "slice for d=%r of a list propagation differs from the single-distance result by %.3g" % (dd, err),
                                       has_zero=0.0 in ds), True, labels)
        if 0.0 in ds:
            labels.append("list_with_zero")
    elif rel == "cfsp":
        kk = case["k"]
        r = vals(P(a, d1, cfsp=kk))
        cur = a
        for _ in range(kk):
            cur = P(cur, d1 / kk)
        err = nrm(r - vals(cur)) / na
        met["cfsp"] = err
        if not np.isfinite(err) or err > 1e-10 * (1 + abs(d1) / lam * 1e-3) * TOLX:
            return Outcome(failure("cfsp", "cfsp=%d differs from %d-fold composition of P(d/%d) by %.3g" % (kk, kk, kk, err)), True, labels)
    elif rel == "gradient":
        g = d2
        r = vals(P(a, d1, gradient_filter=g))
        want = vals(P(a, d1)) - vals(P(a, d1 + g)) if d1 + g != 0 else vals(P(a, d1)) - vals(a)
        err = nrm(r - want) / na
        met["gradient"] = err
        if not np.isfinite(err) or err > 1e-10 * (1 + (abs(d1) + abs(g)) / lam * 1e-3) * TOLX:
            return Outcome(failure("gradient_filter", "gradient_filter=g differs from P(d)-P(d+g) by %.3g" % err), True, labels)
    else:
        r = P(a, d1)
        for cn in ("x", "y"):
            if not np.array_equal(r.coords[cn].values, a.coords[cn].values):
                return Outcome(failure("propagate_coordinates", "coordinate %s changed by propagation" % cn), True, labels)
        if abs(float(np.atleast_1d(r.z.values)[0]) - d1) > 1e-12 * abs(d1):
            return Outcome(failure("propagate_z", "z coordinate %r, expected the distance %r" % (r.z.values, d1)), True, labels)
        for k_ in ("medium_index", "illum_wavelen", "noise_sd"):
            if r.attrs.get(k_) != (a.attrs.get(k_) if not (k_ in ("medium_index", "illum_wavelen") and kw) else {"medium_index": nm, "illum_wavelen": wl}[k_]):
                return Outcome(failure("propagate_metadata", "attr %s is %r after propagation" % (k_, r.attrs.get(k_))), True, labels)
        if r.attrs.get("illum_polarization") is None:
            return Outcome(failure("propagate_metadata", "polarization lost"), True, labels)
    nontrivial = (nx % 2 == 1 or ny % 2 == 1 or nx != ny or evan)
    return Outcome(None, nontrivial, labels, metrics=met)


SUBCHECKS = [
    Sub("fft_ifft_inverse", strat_fft, run_fft, 3000, 60000,
        "exhaustive over shapes 2..9 x 2..9 (3 seeded images each: complex/real, isotropic/anisotropic spacing) plus "
        "random shapes up to 64x64, spacing over 6 decades, shift on/off, optional extra dimension; ifft(fft(a)) = a with "
        "x, y coordinates, name and attrs; forward transform equals numpy fft2(+fftshift); frequency axes span "
        "+-1/(2 spacing); non-trivial = an odd dimension or non-square",
        enumerate_cases=enum_shapes, tolerances={"rel": 1e-12}),
    Sub("propagation_laws", strat_prop, run_prop, 4000, 80000,
        "shapes 2..24 (thorough 64), all lengths expressed in a unit from {1, 1e-9, 1e-6, 1e-3, 1e3, 1e6}, spacing 0.1-5 medium wavelengths (both sides of 1/2 and 1/sqrt 2), distances "
        "+-1e-2..1e3 wavelengths, real/complex data: P(0)=id, P(d2)P(d1)=P(d1+d2), P(-d)P(d)=id when no frequency is "
        "evanescent (decided by the harness), linearity, energy never increases (= when not evanescent), list of "
        "distances (incl. 0) = stack of singles by z label, cfsp=k = k-fold composition, gradient_filter=g = P(d)-P(d+g), "
        "x/y coordinates and metadata preserved, z = distance",
        tolerances={"group_law_rel_norm": "1e-10*(1+|d|/lambda*1e-3)", "linearity": 1e-11, "energy": 1e-12}),
]
