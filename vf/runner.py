"""Sharded Hypothesis runner with crash isolation, known-findings plumbing and evidence output.

A property module (vf/props/cXX.py) exposes
    PROPERTY = "Cxx"
    SUBCHECKS = [Sub(...), ...]
Each Sub has a strategy producing a JSON-serialisable *case* and a pure function
run(case) -> Outcome.  The replay file is the (shrunk) case itself.
"""
import argparse
import hashlib
import importlib
import json
import multiprocessing
import os
import shutil
import signal
import sys
import time
import traceback

VERIF = os.path.dirname(os.path.dirname(os.path.abspath(__file__)))
# calibration aid only (never set by registered commands): multiplies every tolerance
TOLX = float(os.environ.get("VERIF_TOLX", "1"))


# ----------------------------------------------------------------------------------------------
# data model
# ----------------------------------------------------------------------------------------------
class Outcome:
    """Result of one case.  fail is None or dict(cls=..., msg=..., facts={...})."""
    __slots__ = ("fail", "nontrivial", "labels", "skipped", "metrics")

    def __init__(self, fail=None, nontrivial=True, labels=(), skipped=False, metrics=None):
        self.metrics = metrics or {}
        self.fail = fail
        self.nontrivial = bool(nontrivial)
        self.labels = list(labels)
        self.skipped = skipped


def failure(cls, msg, **facts):
    return {"cls": cls, "msg": str(msg)[:2000], "facts": facts}


class Sub:
    def __init__(self, name, strategy, run, n_quick, n_thorough, rule, isolate=False,
                 enumerate_cases=None, budget_quick=90.0, budget_thorough=1200.0,
                 tolerances=None, notes=None, max_shards=16, expected_exceptions=()):
        self.name = name
        self.strategy = strategy          # callable(tier) -> hypothesis strategy
        self.run = run                    # callable(case) -> Outcome
        self.n_quick = n_quick
        self.n_thorough = n_thorough
        self.rule = rule
        self.isolate = isolate            # run every case in a forked child
        self.enumerate_cases = enumerate_cases  # callable(tier) -> list of cases (exhaustive part)
        self.budget_quick = budget_quick
        self.budget_thorough = budget_thorough
        self.tolerances = tolerances or {}
        self.notes = notes
        self.max_shards = max_shards
        self.expected_exceptions = expected_exceptions


def canon(case):
    return json.dumps(case, sort_keys=True, default=_json_default)


def _json_default(o):
    import numpy as np
    if isinstance(o, (np.integer,)):
        return int(o)
    if isinstance(o, (np.floating,)):
        return float(o)
    if isinstance(o, complex):
        return {"__complex__": [o.real, o.imag]}
    if isinstance(o, np.ndarray):
        return o.tolist()
    if isinstance(o, (set, frozenset)):
        return sorted(o)
    if isinstance(o, tuple):
        return list(o)
    return repr(o)


def case_hash(case):
    return hashlib.sha1(canon(case).encode()).hexdigest()[:16]


def signature(subname, fail):
    return (subname, fail["cls"], tuple(sorted((k, canon(v)) for k, v in fail.get("facts", {}).items())))


# ----------------------------------------------------------------------------------------------
# known findings
# ----------------------------------------------------------------------------------------------
def load_known(prop):
    path = os.path.join(VERIF, "known_findings.json")
    if not os.path.exists(path):
        return []
    with open(path) as f:
        data = json.load(f)
    return [e for e in data.get("findings", []) if e.get("property") == prop and e.get("status") == "known"]


def match_known(known, subname, fail):
    for i, e in enumerate(known):
        sig = e["signature"]
        if sig.get("subcheck") not in (None, subname):
            continue
        if sig.get("cls") not in (None, fail["cls"]):
            continue
        facts = fail.get("facts", {})
        ok = True
        for k, v in sig.get("facts", {}).items():
            if k not in facts or json.loads(canon(facts[k])) != v:
                ok = False
                break
        if ok:
            return i
    return None


# ----------------------------------------------------------------------------------------------
# executing one case (optionally in a forked child)
# ----------------------------------------------------------------------------------------------
class CaseTimeout(BaseException):
    """raised by the alarm that bounds the wall time of one case (BaseException: no `except Exception` in the
    code under test or in a check can swallow it)."""


def _alarm(signum, frame):
    raise CaseTimeout()


CASE_TIMEOUT = float(os.environ.get("VERIF_CASE_TIMEOUT", "240"))


def _exec_case(sub, case):
    import signal
    old = None
    try:
        # a case that runs away (e.g. a fit that no longer terminates under a changed tree) is inconclusive, not a
        # violation, and must not hold up the whole check
        old = signal.signal(signal.SIGALRM, _alarm)
        signal.setitimer(signal.ITIMER_REAL, getattr(sub, "case_timeout", None) or CASE_TIMEOUT)
    except (ValueError, AttributeError):
        old = None
    try:
        return _exec_case_inner(sub, case)
    except CaseTimeout:
        return Outcome(nontrivial=False, labels=["case_timeout_inconclusive"], skipped=True)
    finally:
        if old is not None:
            signal.setitimer(signal.ITIMER_REAL, 0)
            signal.signal(signal.SIGALRM, old)


def _exec_case_inner(sub, case):
    try:
        out = sub.run(case)
        if out is None:
            out = Outcome()
        return out
    except sub.expected_exceptions as e:   # documented outcome: counted, not a failure
        return Outcome(nontrivial=False, labels=["expected_exc:" + type(e).__name__], skipped=True)
    except Exception as e:
        tb = traceback.extract_tb(e.__traceback__)
        inner = None
        for fr in reversed(tb):
            if "/holopy/" in fr.filename:
                inner = "%s:%s" % (os.path.basename(fr.filename), fr.name)
                break
        if inner is None:
            # no HoloPy frame on the stack: the harness itself is broken -> exit 2, never a VIOLATION
            return Outcome(fail=failure("harness_error", "%s: %s\n%s" % (
                type(e).__name__, e, "".join(traceback.format_tb(e.__traceback__)[-6:]))), nontrivial=False)
        return Outcome(fail=failure("exception:" + type(e).__name__,
                                    "%s: %s\n%s" % (type(e).__name__, e, "".join(traceback.format_tb(e.__traceback__)[-6:])),
                                    where=inner), nontrivial=True)


def _exec_isolated(sub, case, timeout=120.0):
    r, w = os.pipe()
    sys.stdout.flush()
    sys.stderr.flush()
    pid = os.fork()
    if pid == 0:
        code = 0
        try:
            os.close(r)
            out = _exec_case(sub, case)
            payload = json.dumps({"fail": out.fail, "nontrivial": out.nontrivial,
                                  "labels": out.labels, "skipped": out.skipped, "metrics": out.metrics},
                                 default=_json_default).encode()
            with os.fdopen(w, "wb") as fh:
                fh.write(payload)
        except BaseException:
            code = 3
        finally:
            os._exit(code)
    os.close(w)
    chunks = []
    t0 = time.time()
    import select
    timed_out = False
    with os.fdopen(r, "rb") as fh:
        while True:
            rem = timeout - (time.time() - t0)
            if rem <= 0:
                timed_out = True
                break
            rl, _, _ = select.select([fh], [], [], rem)
            if not rl:
                timed_out = True
                break
            b = fh.read(65536)
            if not b:
                break
            chunks.append(b)
    if timed_out:
        try:
            os.kill(pid, signal.SIGKILL)
        except OSError:
            pass
    _, status = os.waitpid(pid, 0)
    if timed_out:
        # a budget overrun is never a violation
        return Outcome(nontrivial=False, labels=["timeout_inconclusive"], skipped=True)
    data = b"".join(chunks)
    if not data:
        ec = os.waitstatus_to_exitcode(status)
        return Outcome(fail=failure("process_died",
                                    "child interpreter terminated without a result (exit code %s)" % ec,
                                    exit_code=ec), nontrivial=True)
    d = json.loads(data)
    return Outcome(d["fail"], d["nontrivial"], d["labels"], d["skipped"], d.get("metrics"))


def exec_case(sub, case):
    if sub.isolate:
        return _exec_isolated(sub, case)
    return _exec_case(sub, case)


# ----------------------------------------------------------------------------------------------
# shard worker
# ----------------------------------------------------------------------------------------------
class _CaseFailed(Exception):
    pass


def run_shard(prop_mod, subname, shard, nshards, n_examples, seed, tier, budget, outpath, walpath):
    import hypothesis
    from hypothesis import given, settings, HealthCheck, Phase
    from hypothesis import seed as hseed

    sub = next(s for s in prop_mod.SUBCHECKS if s.name == subname)
    known = load_known(prop_mod.PROPERTY)
    stats = {"evaluations": 0, "skipped": 0, "labels": {}, "hashes_nontrivial": set(),
             "samples": [], "known_hits": {}, "truncated": False, "excluded": 0, "metrics": {}}
    found = []           # list of (signature, case, fail)
    suppressed = set()
    t_start = time.time()
    shrink_budget = 25.0 if tier == "quick" else 240.0

    state = {"last_fail": None, "t_first_fail": None}

    def one(case):
        now = time.time()
        if state["t_first_fail"] is None and now - t_start > budget:
            stats["truncated"] = True
            return
        if state["t_first_fail"] is not None and now - state["t_first_fail"] > shrink_budget:
            return
        with open(walpath, "w") as fh:
            fh.write(canon(case))
        out = exec_case(sub, case)
        stats["evaluations"] += 1
        for lab in out.labels:
            stats["labels"][lab] = stats["labels"].get(lab, 0) + 1
        for mk, mv in out.metrics.items():
            try:
                mv = float(mv)
            except Exception:
                continue
            cur = stats["metrics"].get(mk)
            if mv == mv and (cur is None or mv > cur[0]):
                stats["metrics"][mk] = [mv, json.loads(canon(case))]
        if out.skipped:
            stats["skipped"] += 1
        if out.fail is None:
            if out.nontrivial and not out.skipped:
                h = case_hash(case)
                if h not in stats["hashes_nontrivial"]:
                    stats["hashes_nontrivial"].add(h)
                    if len(stats["samples"]) < 3:
                        stats["samples"].append(json.loads(canon(case)))
            return
        k = match_known(known, sub.name, out.fail)
        if k is not None:
            stats["known_hits"][str(k)] = stats["known_hits"].get(str(k), 0) + 1
            stats["excluded"] += 1
            return
        sig = signature(sub.name, out.fail)
        if sig in suppressed:
            stats["excluded"] += 1
            return
        if state["t_first_fail"] is None:
            state["t_first_fail"] = now
        state["last_fail"] = (sig, json.loads(canon(case)), out.fail)
        raise _CaseFailed(out.fail["cls"])

    # exhaustive / enumerated part (shard takes every nshards-th case)
    enum_total = 0
    if sub.enumerate_cases is not None:
        cases = sub.enumerate_cases(tier)
        enum_total = len(cases)
        for i, c in enumerate(cases):
            if i % nshards != shard:
                continue
            try:
                one(c)
            except _CaseFailed:
                sig, cc, fl = state["last_fail"]
                found.append({"sig": list(map(str, sig)), "case": cc, "fail": fl, "shrunk": False})
                suppressed.add(sig)
                state["last_fail"] = None
                state["t_first_fail"] = None

    if n_examples > 0 and sub.strategy is not None:
        strat = sub.strategy(tier)
        for round_ in range(3):
            state["last_fail"] = None
            state["t_first_fail"] = None
            phases = [Phase.generate, Phase.shrink]

            @hseed(seed * 1000 + shard * 7 + round_ * 0)
            @settings(max_examples=n_examples, database=None, deadline=None, derandomize=False,
                      report_multiple_bugs=False, suppress_health_check=list(HealthCheck),
                      phases=phases, print_blob=False, verbosity=hypothesis.Verbosity.quiet)
            @given(strat)
            def test(case):
                one(case)

            try:
                test()
            except BaseException as e:  # noqa
                if isinstance(e, KeyboardInterrupt):
                    raise
                if state["last_fail"] is None:
                    # harness-level error (strategy bug, hypothesis internal): report as error
                    stats.setdefault("harness_errors", []).append(
                        "%s: %s\n%s" % (type(e).__name__, e, traceback.format_exc()[-3000:]))
                    break
            if state["last_fail"] is None:
                break
            sig, cc, fl = state["last_fail"]
            found.append({"sig": list(map(str, sig)), "case": cc, "fail": fl, "shrunk": True})
            suppressed.add(sig)
            if time.time() - t_start > budget:
                break

    stats["hashes_nontrivial"] = sorted(stats["hashes_nontrivial"])
    stats["found"] = found
    stats["enum_total"] = enum_total
    stats["wall_s"] = time.time() - t_start
    tmp = outpath + ".tmp"
    with open(tmp, "w") as fh:
        json.dump(stats, fh, default=_json_default)
    os.replace(tmp, outpath)


def _shard_entry(args):
    (modname, subname, shard, nshards, n, seed, tier, budget, outpath, walpath) = args
    try:
        from . import boot
        boot.boot()
        mod = importlib.import_module(modname)
        run_shard(mod, subname, shard, nshards, n, seed, tier, budget, outpath, walpath)
        code = 0
    except BaseException:
        traceback.print_exc()
        code = 2
    sys.stdout.flush()
    sys.stderr.flush()
    os._exit(code)


# ----------------------------------------------------------------------------------------------
# orchestration
# ----------------------------------------------------------------------------------------------
def write_replay(prop, subname, case, fail, tag):
    d = os.path.join(VERIF, "replays", prop)
    os.makedirs(d, exist_ok=True)
    name = "%s_%s_%s.json" % (subname.replace("/", "_"), tag, case_hash(case)[:8])
    p = os.path.join(d, name)
    with open(p, "w") as fh:
        json.dump({"property": prop, "subcheck": subname, "case": case, "failure": fail}, fh,
                  indent=1, default=_json_default)
    return p


def run_property(prop, tier, seed, only=None, workers=16, scale=1.0):
    t0 = time.time()
    from . import boot
    try:
        boot.boot()
    except Exception as e:
        print("HARNESS-ERROR: cannot build/import holopy from /repo: %s" % e)
        traceback.print_exc()
        return 2
    modname = "vf.props." + prop.lower()
    mod = importlib.import_module(modname)
    known = load_known(prop)
    subs = [s for s in mod.SUBCHECKS if only is None or s.name in only]
    workdir = os.path.join(VERIF, ".work", "%s_%d_%d" % (prop, os.getpid(), int(time.time())))
    os.makedirs(workdir, exist_ok=True)

    violations = []   # (subname, case, fail)
    per_sub = {}
    harness_errors = []

    # ---- corpus replay first (cheap regression tier)
    corpus_dir = os.path.join(VERIF, "corpus", prop)
    corpus_n = 0
    corpus_known = {}
    if os.path.isdir(corpus_dir):
        for fn in sorted(os.listdir(corpus_dir)):
            if not fn.endswith(".json"):
                continue
            with open(os.path.join(corpus_dir, fn)) as fh:
                rec = json.load(fh)
            sub = next((s for s in mod.SUBCHECKS if s.name == rec["subcheck"]), None)
            if sub is None or (only is not None and sub.name not in only):
                continue
            out = exec_case(sub, rec["case"])
            corpus_n += 1
            if out.fail is not None:
                k = match_known(known, sub.name, out.fail)
                if k is not None:
                    corpus_known[str(k)] = corpus_known.get(str(k), 0) + 1
                else:
                    violations.append((sub.name, rec["case"], out.fail, "corpus:" + fn))

    # ---- sharded generation
    tasks = []
    for s in subs:
        n = s.n_quick if tier == "quick" else s.n_thorough
        n = int(max(0, n * scale))
        budget = (s.budget_quick if tier == "quick" else s.budget_thorough)
        nsh = max(1, min(workers, s.max_shards, max(1, n // 8) if n else 1))
        if s.enumerate_cases is not None:
            nsh = max(nsh, min(workers, s.max_shards))
        for i in range(nsh):
            ni = n // nsh + (1 if i < n % nsh else 0)
            tasks.append((modname, s.name, i, nsh, ni, seed, tier, budget,
                          os.path.join(workdir, "%s_%d.json" % (s.name, i)),
                          os.path.join(workdir, "%s_%d.wal" % (s.name, i))))
    ctx = multiprocessing.get_context("fork")
    running = []
    pending = list(tasks)
    results = {}
    while pending or running:
        while pending and len(running) < workers:
            t = pending.pop(0)
            p = ctx.Process(target=_shard_entry, args=(t,))
            p.start()
            running.append((p, t))
        time.sleep(0.05)
        still = []
        for p, t in running:
            if p.is_alive():
                still.append((p, t))
                continue
            p.join()
            results[(t[1], t[2])] = (p.exitcode, t)
        running = still

    for s in subs:
        agg = {"evaluations": 0, "skipped": 0, "labels": {}, "hashes": set(), "samples": [],
               "known_hits": {}, "truncated": False, "excluded": 0, "enum_total": 0, "wall_s": 0.0,
               "shards": 0, "metrics": {}}
        for (sn, sh), (ec, t) in sorted(results.items()):
            if sn != s.name:
                continue
            agg["shards"] += 1
            outpath, walpath = t[8], t[9]
            if not os.path.exists(outpath):
                # worker vanished: interpreter terminated (e.g. Fortran STOP) or harness crash
                if ec == 2:
                    harness_errors.append("%s shard %d: worker raised (see stderr)" % (sn, sh))
                    continue
                case = None
                if os.path.exists(walpath):
                    with open(walpath) as fh:
                        try:
                            case = json.load(fh)
                        except Exception:
                            case = None
                fl = failure("process_died", "worker interpreter terminated (exit code %s) while "
                             "executing this case" % ec, exit_code=ec)
                if case is not None:
                    k = match_known(known, sn, fl)
                    if k is not None:
                        agg["known_hits"][str(k)] = agg["known_hits"].get(str(k), 0) + 1
                    else:
                        violations.append((sn, case, fl, "worker-death"))
                else:
                    harness_errors.append("%s shard %d died without a logged case (exit %s)" % (sn, sh, ec))
                continue
            with open(outpath) as fh:
                st = json.load(fh)
            agg["evaluations"] += st["evaluations"]
            agg["skipped"] += st["skipped"]
            agg["excluded"] += st["excluded"]
            agg["truncated"] = agg["truncated"] or st["truncated"]
            agg["enum_total"] = max(agg["enum_total"], st.get("enum_total", 0))
            agg["wall_s"] = max(agg["wall_s"], st["wall_s"])
            for k, v in st["labels"].items():
                agg["labels"][k] = agg["labels"].get(k, 0) + v
            for k, v in st["known_hits"].items():
                agg["known_hits"][k] = agg["known_hits"].get(k, 0) + v
            agg["hashes"].update(st["hashes_nontrivial"])
            for mk, mv in st.get("metrics", {}).items():
                if mk not in agg["metrics"] or mv[0] > agg["metrics"][mk][0]:
                    agg["metrics"][mk] = mv
            if len(agg["samples"]) < 3:
                agg["samples"].extend(st["samples"][:3 - len(agg["samples"])])
            for he in st.get("harness_errors", []):
                harness_errors.append("%s shard %d: %s" % (sn, sh, he))
            for f in st["found"]:
                violations.append((sn, f["case"], f["fail"], "generated"))
        per_sub[s.name] = agg

    shutil.rmtree(workdir, ignore_errors=True)

    # ---- verdict
    seen_sigs = set()
    viol_lines = []
    for sn, case, fl, origin in violations:
        sig = signature(sn, fl)
        if sig in seen_sigs:
            continue
        seen_sigs.add(sig)
        path = write_replay(prop, sn, case, fl, fl["cls"].replace(":", "_").replace("/", "_")[:40])
        viol_lines.append((path, sn, fl, origin))

    known_hits_total = dict(corpus_known)
    for s in subs:
        for k, v in per_sub[s.name]["known_hits"].items():
            known_hits_total[k] = known_hits_total.get(k, 0) + v

    # ---- evidence
    evaluations = corpus_n + sum(a["evaluations"] for a in per_sub.values())
    distinct = sum(len(a["hashes"]) for a in per_sub.values())
    samples = []
    for s in subs:
        for c in per_sub[s.name]["samples"][:2]:
            samples.append({"subcheck": s.name, "case": c})
    warnings_ = []
    for s in subs:
        a = per_sub[s.name]
        if a["evaluations"] and a["skipped"] > 0.5 * a["evaluations"]:
            warnings_.append("%s: %d of %d cases ended in a documented/expected exception or were skipped"
                             % (s.name, a["skipped"], a["evaluations"]))
        if a["truncated"]:
            warnings_.append("%s: time budget reached before all requested cases ran (inconclusive for the rest)" % s.name)
    ev = {
        "property_id": prop, "tier": tier, "seed": int(seed), "level": "exploration",
        "coverage": {
            "evaluations": int(evaluations),
            "distinct_nontrivial": int(distinct),
            "rule": " || ".join("[%s] %s" % (s.name, s.rule) for s in subs),
            "samples": samples if samples else [{"note": "no non-trivial passing case recorded"}],
            "exhaustive": False,
            "subchecks": {
                s.name: {
                    "evaluations": per_sub[s.name]["evaluations"],
                    "distinct_nontrivial": len(per_sub[s.name]["hashes"]),
                    "documented_exception_or_skipped": per_sub[s.name]["skipped"],
                    "excluded_known_or_duplicate_failures": per_sub[s.name]["excluded"],
                    "enumerated_exhaustively": per_sub[s.name]["enum_total"],
                    "labels": dict(sorted(per_sub[s.name]["labels"].items())),
                    "tolerances": s.tolerances,
                    "observed_max": {k: v[0] for k, v in sorted(per_sub[s.name]["metrics"].items())},
                    "notes": s.notes,
                    "shards": per_sub[s.name]["shards"],
                    "budget_truncated": per_sub[s.name]["truncated"],
                } for s in subs},
            "corpus_replayed": corpus_n,
            "known_finding_hits": known_hits_total,
            "warnings": warnings_,
            "harness_errors": harness_errors[:10],
            "compiled_limits": boot.LIMITS(),
        },
        "assumptions": getattr(mod, "ASSUMPTIONS", []),
        "wall_s": round(time.time() - t0, 2),
        "violations": len(viol_lines),
    }
    if only is None:
        os.makedirs(os.path.join(VERIF, "evidence"), exist_ok=True)
        with open(os.path.join(VERIF, "evidence", prop + ".json"), "w") as fh:
            json.dump(ev, fh, indent=1, default=_json_default)

    # ---- report
    for s in subs:
        a = per_sub[s.name]
        print("  %-28s cases=%-6d nontrivial=%-6d skipped=%-5d excluded=%-4d %s%.0fs" % (
            s.name, a["evaluations"], len(a["hashes"]), a["skipped"], a["excluded"],
            "TRUNCATED " if a["truncated"] else "", a["wall_s"]))
        if os.environ.get("VERIF_SHOW_METRICS"):
            os.makedirs(os.path.join(VERIF, ".work"), exist_ok=True)
            with open(os.path.join(VERIF, ".work", "metrics_%s_%s.json" % (prop, s.name)), "w") as fh:
                json.dump({mk: {"value": mv[0], "case": mv[1]} for mk, mv in a["metrics"].items()}, fh)
            for mk, mv in sorted(a["metrics"].items()):
                print("      max %-28s %.3g   at %s" % (mk, mv[0], canon(mv[1])[:400]))
    for k, v in sorted(known_hits_total.items()):
        e = known[int(k)]
        print("KNOWN-FINDING: property=%s %s (hits this run: %d)" % (prop, e["what"], v))
    # known findings are printed even when this run's generator did not hit them: they are
    # properties of the tree, identified by their committed minimal case (replayed above).
    for i, e in enumerate(known):
        if str(i) not in known_hits_total:
            print("KNOWN-FINDING: property=%s %s (not hit this run)" % (prop, e["what"]))
    he = [v for v in viol_lines if v[2]["cls"] == "harness_error"]
    viol_lines = [v for v in viol_lines if v[2]["cls"] != "harness_error"]
    for path, sn, fl, origin in he:
        harness_errors.append("%s: %s (case saved at %s)" % (sn, fl["msg"], path))
    for path, sn, fl, origin in viol_lines:
        print("  failure in %s [%s] %s: %s" % (sn, origin, fl["cls"], fl["msg"].splitlines()[0][:300]))
        print("VIOLATION property=%s replay=%s" % (prop, path))
    for he in harness_errors[:5]:
        print("HARNESS-ERROR:", he[:1500])
    if viol_lines:
        return 1
    if harness_errors:
        return 2
    print("OK property=%s tier=%s seed=%s cases=%d nontrivial=%d wall=%.0fs" % (
        prop, tier, seed, evaluations, distinct, time.time() - t0))
    return 0


def replay(prop, path):
    from . import boot
    boot.boot()
    mod = importlib.import_module("vf.props." + prop.lower())
    with open(path) as fh:
        rec = json.load(fh)
    sub = next(s for s in mod.SUBCHECKS if s.name == rec["subcheck"])
    out = exec_case(sub, rec["case"])
    if out.fail is None:
        print("replay passes: %s" % path)
        return 0
    known = load_known(prop)
    k = match_known(known, sub.name, out.fail)
    if k is not None:
        print("KNOWN-FINDING: property=%s %s" % (prop, known[k]["what"]))
        return 0
    print("  failure in %s: %s: %s" % (sub.name, out.fail["cls"], out.fail["msg"][:1500]))
    print("VIOLATION property=%s replay=%s" % (prop, path))
    return 1


def main(argv=None):
    ap = argparse.ArgumentParser()
    ap.add_argument("prop")
    ap.add_argument("--tier", default=os.environ.get("VERIF_TIER", "quick"), choices=["quick", "thorough"])
    ap.add_argument("--seed", type=int, default=int(os.environ.get("VERIF_SEED", "1")))
    ap.add_argument("--replay")
    ap.add_argument("--only", action="append")
    ap.add_argument("--workers", type=int, default=int(os.environ.get("VERIF_WORKERS", "16")))
    ap.add_argument("--scale", type=float, default=float(os.environ.get("VERIF_SCALE", "1")))
    a = ap.parse_args(argv)
    prop = a.prop.upper()
    try:
        if a.replay:
            return replay(prop, a.replay)
        return run_property(prop, a.tier, a.seed, a.only, a.workers, a.scale)
    except SystemExit:
        raise
    except BaseException:
        traceback.print_exc()
        print("HARNESS-ERROR: runner crashed")
        return 2


if __name__ == "__main__":
    sys.exit(main())
