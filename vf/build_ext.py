"""Build HoloPy's four f2py extensions from /repo's *current* Fortran sources.

The pinned baseline never loads compiled solvers (no .so in the tree, no meson/ninja here), so
the harness builds them itself with numpy.f2py + gcc + gfortran (all present offline) into
/verif/.build/<hash>/ (git-ignored).  The hash covers every Fortran source, the include files and
the numpy/python versions, so an edit to a Fortran file in /repo triggers a rebuild on the next
check invocation.  Nothing is ever written into /repo.
"""
import hashlib
import os
import shutil
import subprocess
import sys
import sysconfig
import fcntl

REPO = os.environ.get("HOLOPY_REPO", "/repo")
VERIF = os.path.dirname(os.path.dirname(os.path.abspath(__file__)))
BUILD_ROOT = os.path.join(VERIF, ".build")

MIE_F = "holopy/scattering/theory/mie_f"
TM_F = "holopy/scattering/theory/tmatrix_f"
TP = "holopy/scattering/third_party"

EXTS = {
    # module name: (package, sources, include dir)
    "uts_scsmfo": ("holopy.scattering.theory.mie_f",
                   [MIE_F + "/uts_scsmfo.for", TP + "/SBESJY.F"], MIE_F),
    "mieangfuncs": ("holopy.scattering.theory.mie_f",
                    [MIE_F + "/mieangfuncs.f90", MIE_F + "/uts_scsmfo.for",
                     TP + "/SBESJY.F", TP + "/csphjy.for"], MIE_F),
    "scsmfo_min": ("holopy.scattering.theory.mie_f",
                   [MIE_F + "/scsmfo_min.for"], MIE_F),
    "S": ("holopy.scattering.theory.tmatrix_f",
          [TM_F + "/S.f", TM_F + "/ampld.lp.f", TM_F + "/lpd.f"], TM_F),
}
EXTRA_HASHED = [MIE_F + "/scfodim.for", TM_F + "/ampld.par.f"]


class BuildError(RuntimeError):
    pass


def source_hash(repo=REPO):
    import numpy
    h = hashlib.sha256()
    h.update(sys.version.encode())
    h.update(numpy.__version__.encode())
    files = sorted(set(sum((v[1] for v in EXTS.values()), [])) | set(EXTRA_HASHED))
    for f in files:
        h.update(f.encode())
        with open(os.path.join(repo, f), "rb") as fh:
            h.update(fh.read())
    return h.hexdigest()[:16]


def _run(cmd, cwd, log):
    p = subprocess.run(cmd, cwd=cwd, stdout=subprocess.PIPE, stderr=subprocess.STDOUT, text=True)
    log.write("$ " + " ".join(cmd) + "\n" + p.stdout + "\n")
    if p.returncode != 0:
        raise BuildError("command failed: %s\n%s" % (" ".join(cmd), p.stdout[-3000:]))


def _build_one(name, repo, outdir, log):
    import numpy
    import numpy.f2py
    pkg, srcs, incdir = EXTS[name]
    work = os.path.join(outdir, "work_" + name)
    os.makedirs(work, exist_ok=True)
    abs_srcs = [os.path.join(repo, s) for s in srcs]
    inc = os.path.join(repo, incdir)
    _run([sys.executable, "-m", "numpy.f2py"] + abs_srcs +
         ["-m", name, "--lower", "--build-dir", work], work, log)
    f2py_src = os.path.join(os.path.dirname(numpy.f2py.__file__), "src")
    cinc = ["-I" + sysconfig.get_paths()["include"], "-I" + numpy.get_include(), "-I" + f2py_src]
    cflags = ["-O2", "-fPIC", "-DNPY_NO_DEPRECATED_API=NPY_1_9_API_VERSION", "-w"]
    objs = []
    for csrc in [os.path.join(work, name + "module.c"), os.path.join(f2py_src, "fortranobject.c")]:
        o = os.path.join(work, os.path.basename(csrc) + ".o")
        _run(["gcc", "-c", csrc, "-o", o] + cflags + cinc, work, log)
        objs.append(o)
    fsrcs = list(abs_srcs)
    for wrap in (name + "-f2pywrappers.f", name + "-f2pywrappers2.f90"):
        w = os.path.join(work, wrap)
        if os.path.exists(w):
            fsrcs.append(w)
    for i, fsrc in enumerate(fsrcs):
        o = os.path.join(work, "f%d_%s.o" % (i, os.path.basename(fsrc)))
        _run(["gfortran", "-c", fsrc, "-o", o, "-O2", "-fPIC", "-w", "-I" + inc,
              "-J" + work, "-std=legacy"], work, log)
        objs.append(o)
    suffix = sysconfig.get_config_var("EXT_SUFFIX")
    so = os.path.join(outdir, name + suffix)
    _run(["gfortran", "-shared", "-o", so] + objs + ["-lquadmath", "-lgfortran"], work, log)
    shutil.rmtree(work, ignore_errors=True)
    return so


def ensure_built(repo=REPO, verbose=False):
    """Return {module name: path to .so}, building if the cached hash differs."""
    h = source_hash(repo)
    outdir = os.path.join(BUILD_ROOT, h)
    os.makedirs(BUILD_ROOT, exist_ok=True)
    suffix = sysconfig.get_config_var("EXT_SUFFIX")
    paths = {n: os.path.join(outdir, n + suffix) for n in EXTS}
    stamp = os.path.join(outdir, "OK")
    lock = open(os.path.join(BUILD_ROOT, "lock"), "w")
    fcntl.flock(lock, fcntl.LOCK_EX)
    try:
        if os.path.exists(stamp) and all(os.path.exists(p) for p in paths.values()):
            return paths
        if os.path.isdir(outdir):
            shutil.rmtree(outdir)
        os.makedirs(outdir)
        # keep at most 3 old builds (disk)
        olds = sorted((d for d in os.listdir(BUILD_ROOT)
                       if os.path.isdir(os.path.join(BUILD_ROOT, d)) and d != h),
                      key=lambda d: os.path.getmtime(os.path.join(BUILD_ROOT, d)))
        for d in olds[:-3]:
            shutil.rmtree(os.path.join(BUILD_ROOT, d), ignore_errors=True)
        with open(os.path.join(outdir, "build.log"), "w") as log:
            from concurrent.futures import ThreadPoolExecutor
            with ThreadPoolExecutor(4) as ex:
                futs = {n: ex.submit(_build_one, n, repo, outdir, log) for n in EXTS}
                for n, f in futs.items():
                    f.result()
        open(stamp, "w").write(h)
        if verbose:
            print("built extensions in", outdir)
        return paths
    finally:
        fcntl.flock(lock, fcntl.LOCK_UN)
        lock.close()


def parsed_limits(repo=REPO):
    """Compiled-in array limits parsed from the Fortran (generators depend on them)."""
    import re
    out = {}
    txt = open(os.path.join(repo, MIE_F, "scfodim.for")).read()
    for k in ("nod", "notd", "npd"):
        m = re.search(r"\b%s\s*=\s*(\d+)" % k, txt)
        if m:
            out[k] = int(m.group(1))
    txt = open(os.path.join(repo, TM_F, "ampld.par.f")).read()
    m = re.search(r"NPN1\s*=\s*(\d+)", txt)
    if m:
        out["NPN1"] = int(m.group(1))
    return out


if __name__ == "__main__":
    try:
        p = ensure_built(verbose=True)
    except BuildError as e:
        print("BUILD FAILED:", e)
        sys.exit(2)
    for k, v in p.items():
        print(k, v)
    print(parsed_limits())
