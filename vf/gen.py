"""Shared Hypothesis strategies (cases are plain JSON data) and builders of HoloPy objects."""
import math

import numpy as np
from hypothesis import strategies as st

TWO_PI = 2 * math.pi


# ---------------------------------------------------------------------------------------------
# elementary strategies
# ---------------------------------------------------------------------------------------------
def logu(lo, hi):
    return st.floats(math.log(lo), math.log(hi), allow_nan=False).map(lambda v: float(math.exp(v)))


def rounded(lo, hi, nd=6):
    return st.floats(lo, hi, allow_nan=False, allow_infinity=False).map(lambda v: round(v, nd))


SPECIAL_ANGLES = [0.0, math.pi / 2, math.pi, 3 * math.pi / 2, math.pi / 4, 1e-6, -math.pi / 2, math.pi / 3]


def pol_angle(special=True):
    base = st.floats(0.0, TWO_PI, exclude_max=True, allow_nan=False)
    if special:
        return st.one_of(base, base, base, st.sampled_from(SPECIAL_ANGLES))
    return base


def polarization(any_norm=False):
    """[px, py]; angle uniform (plus specials); norm 1 or log-uniform [0.1, 10]."""
    norm = st.one_of(st.just(1.0), logu(0.1, 10.0)) if any_norm else st.just(1.0)
    return st.tuples(pol_angle(), norm).map(lambda t: [t[1] * math.cos(t[0]), t[1] * math.sin(t[0])])


def optics(any_norm=False, pol=None):
    return st.fixed_dictionaries({
        "nm": st.one_of(st.sampled_from([1.0, 1.33, 1.5]), rounded(1.0, 1.7, 4)),
        "wl": st.one_of(st.sampled_from([0.405, 0.532, 0.66, 0.785, 1.064]), rounded(0.3, 1.1, 4)),
        "pol": pol if pol is not None else polarization(any_norm),
    })


def rel_index(absorbing=None, lo=0.5, hi=2.5):
    """[m_r, m_i]: m_r in [lo,hi] minus (0.98,1.02); m_i 0 or log-uniform[1e-4, 3]."""
    mr = st.one_of(st.floats(max(lo, 1.02), hi), st.floats(max(lo, 1.02), hi),
                   st.floats(lo, 0.98) if lo < 0.98 else st.floats(1.02, hi)).map(lambda v: round(v, 5))
    if absorbing is True:
        mi = logu(1e-4, 3.0)
    elif absorbing is False:
        mi = st.just(0.0)
    else:
        mi = st.one_of(st.just(0.0), st.just(0.0), logu(1e-4, 3.0))
    return st.tuples(mr, mi).map(lambda t: [t[0], round(t[1], 7)])


def size_param(lo, hi):
    return logu(lo, hi)


def sphere_dimless(xlo=1e-3, xhi=500.0, absorbing=None, mlo=0.5, mhi=2.5):
    return st.fixed_dictionaries({"x": size_param(xlo, xhi), "m": rel_index(absorbing, mlo, mhi)})


# ---------------------------------------------------------------------------------------------
# detectors
# ---------------------------------------------------------------------------------------------
def grid_detector(max_side=12, min_side=1):
    side = st.integers(min_side, max_side)
    return st.fixed_dictionaries({
        "kind": st.just("grid"),
        "shape": st.tuples(side, side),
        # spacing in units of the medium wavelength
        "spacing": st.one_of(logu(0.05, 3.0).map(lambda v: [v, v]), st.tuples(logu(0.05, 3.0), logu(0.05, 3.0)).map(list)),
        "origin": st.one_of(st.just([0.0, 0.0]), st.tuples(rounded(-20, 20, 3), rounded(-20, 20, 3)).map(list)),
        "z": st.one_of(st.just(0.0), st.just(0.0), rounded(-5, 5, 3)),
    })


def point_detector(max_pts=12):
    # coordinates in units of medium wavelength, relative to a window around the origin
    return st.fixed_dictionaries({
        "kind": st.just("points"),
        "pts": st.lists(st.tuples(rounded(-15, 15, 4), rounded(-15, 15, 4),
                                  st.one_of(st.just(0.0), rounded(-3, 3, 4))).map(list),
                        min_size=1, max_size=max_pts),
    })


def any_detector(max_side=12, max_pts=12):
    return st.one_of(grid_detector(max_side), grid_detector(max_side), point_detector(max_pts))


def detector_xy_extent(det, unit):
    """(xmin, xmax, ymin, ymax, zmax) in real units given unit = medium wavelength."""
    if det["kind"] == "grid":
        sx, sy = det["spacing"]
        ox, oy = det["origin"]
        nx, ny = det["shape"]
        return (ox * unit, (ox + sx * (nx - 1)) * unit, oy * unit, (oy + sy * (ny - 1)) * unit, det["z"] * unit)
    p = np.array(det["pts"]) * unit
    return (p[:, 0].min(), p[:, 0].max(), p[:, 1].min(), p[:, 1].max(), p[:, 2].max())


def build_detector(det, unit, extra_dims=None, name=None):
    """unit = length of one medium wavelength in the case's length unit."""
    import holopy as hp
    if det["kind"] == "grid":
        sx, sy = det["spacing"]
        d = hp.detector_grid(shape=tuple(det["shape"]), spacing=(sx * unit, sy * unit),
                             extra_dims=extra_dims, name=name)
        ox, oy = det["origin"]
        if ox or oy:
            d = d.assign_coords(x=d.x.values + ox * unit, y=d.y.values + oy * unit)
        if det["z"]:
            d = d.assign_coords(z=[det["z"] * unit])
        return d
    p = np.array(det["pts"], dtype=float) * unit
    return hp.detector_points(x=p[:, 0], y=p[:, 1], z=p[:, 2], name=name)


def detector_points_xyz(det, unit):
    """(N,3) positions in the order of flat(detector) (x-major for grids)."""
    if det["kind"] == "grid":
        sx, sy = det["spacing"]
        ox, oy = det["origin"]
        nx, ny = det["shape"]
        xs = np.arange(nx) * (sx * unit) + (ox * unit if ox else 0.0)
        ys = np.arange(ny) * (sy * unit) + (oy * unit if oy else 0.0)
        X, Y = np.meshgrid(xs, ys, indexing="ij")
        z = det["z"] * unit if det["z"] else 0.0
        return np.stack([X.ravel(), Y.ravel(), np.full(X.size, z)], 1)
    return np.array(det["pts"], dtype=float) * unit


def flatten(res, fallback_pts=None):
    """Return (pts (N,3), values (N,) or (N,3) for fields) in flat(detector) order, by label."""
    import xarray as xr
    r = res
    if "point" in r.dims:
        if "x" in r.coords:
            pts = np.stack([r.x.values, r.y.values, r.z.values], 1)
        elif fallback_pts is not None:
            # point results are positional (C01 checks coordinate preservation separately)
            pts = np.asarray(fallback_pts, dtype=float)
        else:
            pts = None
        if "vector" in r.dims:
            vals = r.transpose("point", "vector").sel(vector=["x", "y", "z"]).values
        else:
            vals = r.values
        return pts, vals
    if "flat" not in r.dims:
        r = r.stack(flat=("x", "y", "z"))
    pts = np.stack([r.x.values, r.y.values, r.z.values], 1)
    if "vector" in r.dims:
        vals = r.transpose("flat", "vector").sel(vector=["x", "y", "z"]).values
    else:
        vals = r.transpose("flat").values
    return pts, vals


# ---------------------------------------------------------------------------------------------
# placing a sphere relative to a detector (dimensionless draws -> real numbers)
# ---------------------------------------------------------------------------------------------
def placement():
    """fractional in-plane position within (slightly beyond) the detector window and k*(gap) above it."""
    return st.fixed_dictionaries({
        "fx": st.floats(-0.3, 1.3).map(lambda v: round(v, 4)),
        "fy": st.floats(-0.3, 1.3).map(lambda v: round(v, 4)),
        "kgap": logu(0.3, 300.0),      # k * (z0 - z_det - r): gap between sphere surface and detector plane
    })


def place(pl, det, unit, radius, k):
    xmin, xmax, ymin, ymax, zmax = detector_xy_extent(det, unit)
    wx = max(xmax - xmin, 2 * unit)
    wy = max(ymax - ymin, 2 * unit)
    cx = xmin + pl["fx"] * wx
    cy = ymin + pl["fy"] * wy
    cz = zmax + radius * 1.0 + pl["kgap"] / k
    return [float(cx), float(cy), float(cz)]


def optics_kwargs(o):
    return dict(medium_index=o["nm"], illum_wavelen=o["wl"], illum_polarization=tuple(o["pol"]))


def wavevec(o):
    return TWO_PI * o["nm"] / o["wl"]


def make_sphere(sd, o, center):
    from holopy.scattering import Sphere
    k = wavevec(o)
    m = complex(sd["m"][0], sd["m"][1]) if sd["m"][1] else sd["m"][0]
    return Sphere(n=m * o["nm"], r=sd["x"] / k, center=None if center is None else tuple(center))
