"""Shared Hypothesis strategies (cases are plain JSON data) and builders of HoloPy objects."""
import math

import numpy as np
from hypothesis import strategies as st

TWO_PI = 2 * math.pi


# ---------------------------------------------------------------------------------------------
# elementary strategies
# ---------------------------------------------------------------------------------------------
def logu(lo, hi):
    return st.floats(math.log(lo), math.log(hi), allow_nan=False).map(lambda v: float(math.exp(v)))


def rounded(lo, hi, nd=6):
    return st.floats(lo, hi, allow_nan=False, allow_infinity=False).map(lambda v: round(v, nd))


SPECIAL_ANGLES = [0.0, math.pi / 2, math.pi, 3 * math.pi / 2, math.pi / 4, 1e-6, -math.pi / 2, math.pi / 3]


def pol_angle(special=True):
    base = st.floats(0.0, TWO_PI, exclude_max=True, allow_nan=False)
    if special:
        return st.one_of(base, base, base, st.sampled_from(SPECIAL_ANGLES))
    return base


def polarization(any_norm=False):
    """[px, py]; angle uniform (plus specials); norm 1 or log-uniform [0.1, 10]."""
    norm = st.one_of(st.just(1.0), logu(0.1, 10.0)) if any_norm else st.just(1.0)
    return st.tuples(pol_angle(), norm).map(lambda t: [t[1] * math.cos(t[0]), t[1] * math.sin(t[0])])


def optics(any_norm=False, pol=None):
    return st.fixed_dictionaries({
        "nm": st.one_of(st.sampled_from([1.0, 1.33, 1.5]), rounded(1.0, 1.7, 4)),
        "wl": st.one_of(st.sampled_from([0.405, 0.532, 0.66, 0.785, 1.064]), rounded(0.3, 1.1, 4)),
        "pol": pol if pol is not None else polarization(any_norm),
        # how the polarization is handed over: the (x, y) pair, or the same vector with an explicit zero z component
        # as a tuple, a list or an array
        # or as an array labelled along 'vector' (what HoloPy itself keeps in an image's metadata), built by hand from the raw components
        "pol_form": st.sampled_from(["xy", "xy", "xy", "xyz_tuple", "xyz_list", "xyz_array", "xyz_labelled"]),
    })


def rel_index(absorbing=None, lo=0.5, hi=2.5):
    """[m_r, m_i]: m_r in [lo,hi] minus (0.98,1.02); m_i 0 or log-uniform[1e-4, 3]."""
    mr = st.one_of(st.floats(max(lo, 1.02), hi), st.floats(max(lo, 1.02), hi),
                   st.floats(lo, 0.98) if lo < 0.98 else st.floats(1.02, hi)).map(lambda v: round(v, 5))
    if absorbing is True:
        mi = logu(1e-4, 3.0)
    elif absorbing is False:
        mi = st.just(0.0)
    else:
        mi = st.one_of(st.just(0.0), st.just(0.0), logu(1e-4, 3.0))
    return st.tuples(mr, mi).map(lambda t: [t[0], round(t[1], 7)])


def size_param(lo, hi):
    return logu(lo, hi)


def sphere_dimless(xlo=1e-3, xhi=500.0, absorbing=None, mlo=0.5, mhi=2.5):
    return st.fixed_dictionaries({"x": size_param(xlo, xhi), "m": rel_index(absorbing, mlo, mhi)})


# ---------------------------------------------------------------------------------------------
# detectors
# ---------------------------------------------------------------------------------------------
def grid_detector(max_side=12, min_side=1):
    side = st.integers(min_side, max_side)
    return st.fixed_dictionaries({
        "kind": st.just("grid"),
        "shape": st.tuples(side, side),
        # spacing in units of the medium wavelength
        "spacing": st.one_of(logu(0.05, 3.0).map(lambda v: [v, v]), st.tuples(logu(0.05, 3.0), logu(0.05, 3.0)).map(list)),
        "origin": st.one_of(st.just([0.0, 0.0]), st.tuples(rounded(-20, 20, 3), rounded(-20, 20, 3)).map(list)),
        "z": st.one_of(st.just(0.0), st.just(0.0), rounded(-5, 5, 3)),
    })


def point_detector(max_pts=12):
    # coordinates in units of medium wavelength, relative to a window around the origin
    return st.fixed_dictionaries({
        "kind": st.just("points"),
        "pts": st.lists(st.tuples(rounded(-15, 15, 4), rounded(-15, 15, 4),
                                  st.one_of(st.just(0.0), rounded(-3, 3, 4))).map(list),
                        min_size=1, max_size=max_pts),
    })


def any_detector(max_side=12, max_pts=12):
    return st.one_of(grid_detector(max_side), grid_detector(max_side), point_detector(max_pts))


def detector_xy_extent(det, unit):
    """(xmin, xmax, ymin, ymax, zmax) in real units given unit = medium wavelength."""
    if det["kind"] == "grid":
        sx, sy = det["spacing"]
        ox, oy = det["origin"]
        nx, ny = det["shape"]
        return (ox * unit, (ox + sx * (nx - 1)) * unit, oy * unit, (oy + sy * (ny - 1)) * unit, det["z"] * unit)
    p = np.array(det["pts"]) * unit
    return (p[:, 0].min(), p[:, 0].max(), p[:, 1].min(), p[:, 1].max(), p[:, 2].max())


def build_detector(det, unit, extra_dims=None, name=None):
    """unit = length of one medium wavelength in the case's length unit."""
    import holopy as hp
    if det["kind"] == "grid":
        sx, sy = det["spacing"]
        d = hp.detector_grid(shape=tuple(det["shape"]), spacing=(sx * unit, sy * unit),
                             extra_dims=extra_dims, name=name)
        ox, oy = det["origin"]
        if ox or oy:
            d = d.assign_coords(x=d.x.values + ox * unit, y=d.y.values + oy * unit)
        if det["z"]:
            d = d.assign_coords(z=[det["z"] * unit])
        return d
    p = np.array(det["pts"], dtype=float) * unit
    return hp.detector_points(x=p[:, 0], y=p[:, 1], z=p[:, 2], name=name)


def detector_points_xyz(det, unit):
    """(N,3) positions in the order of flat(detector) (x-major for grids)."""
    if det["kind"] == "grid":
        sx, sy = det["spacing"]
        ox, oy = det["origin"]
        nx, ny = det["shape"]
        xs = np.arange(nx) * (sx * unit) + (ox * unit if ox else 0.0)
        ys = np.arange(ny) * (sy * unit) + (oy * unit if oy else 0.0)
        X, Y = np.meshgrid(xs, ys, indexing="ij")
        z = det["z"] * unit if det["z"] else 0.0
        return np.stack([X.ravel(), Y.ravel(), np.full(X.size, z)], 1)
    return np.array(det["pts"], dtype=float) * unit


def flatten(res, fallback_pts=None):
    """Return (pts (N,3), values (N,) or (N,3) for fields) in flat(detector) order, by label."""
    import xarray as xr
    r = res
    if "point" in r.dims:
        if "x" in r.coords:
            pts = np.stack([r.x.values, r.y.values, r.z.values], 1)
        elif fallback_pts is not None:
            # point results are positional (C01 checks coordinate preservation separately)
            pts = np.asarray(fallback_pts, dtype=float)
        else:
            pts = None
        if "vector" in r.dims:
            vals = r.transpose("point", "vector").sel(vector=["x", "y", "z"]).values
        else:
            vals = r.values
        return pts, vals
    if "flat" not in r.dims:
        r = r.stack(flat=("x", "y", "z"))
    pts = np.stack([r.x.values, r.y.values, r.z.values], 1)
    if "vector" in r.dims:
        vals = r.transpose("flat", "vector").sel(vector=["x", "y", "z"]).values
    else:
        vals = r.transpose("flat").values
    return pts, vals


# ---------------------------------------------------------------------------------------------
# placing a sphere relative to a detector (dimensionless draws -> real numbers)
# ---------------------------------------------------------------------------------------------
def placement():
    """fractional in-plane position within (slightly beyond) the detector window and k*(gap) above it."""
    return st.fixed_dictionaries({
        "fx": st.floats(-0.3, 1.3).map(lambda v: round(v, 4)),
        "fy": st.floats(-0.3, 1.3).map(lambda v: round(v, 4)),
        "kgap": logu(0.3, 300.0),      # k * (z0 - z_det - r): gap between sphere surface and detector plane
    })


def place(pl, det, unit, radius, k):
    xmin, xmax, ymin, ymax, zmax = detector_xy_extent(det, unit)
    wx = max(xmax - xmin, 2 * unit)
    wy = max(ymax - ymin, 2 * unit)
    cx = xmin + pl["fx"] * wx
    cy = ymin + pl["fy"] * wy
    cz = zmax + radius * 1.0 + pl["kgap"] / k
    return [float(cx), float(cy), float(cz)]


def polarization_argument(o):
    form = o.get("pol_form", "xy")
    px, py = o["pol"]
    if form == "xyz_tuple":
        return (px, py, 0.0)
    if form == "xyz_list":
        return [px, py, 0.0]
    if form == "xyz_array":
        return np.array([px, py, 0.0])
    if form == "xyz_labelled":
        import xarray as xr
        return xr.DataArray(np.array([px, py, 0.0], dtype=float), dims="vector", coords={"vector": ["x", "y", "z"]})
    return (px, py)


WARM = ["radius", "index", "absorption", "wavelength", "position"]


def warm_strategy():
    """how (if at all) the theory object is used once on a sibling problem before the calculation under test."""
    return st.one_of(st.none(), st.none(), st.sampled_from(WARM))


def warm_up(theory, scat, o, how):
    """Use `theory` once on a sibling of `scat` that differs in exactly one respect, and throw the result away.
    A theory object that remembers anything from one calculation to the next (a cache keyed too coarsely, a
    weight array modified in place) then gives a wrong answer in the calculation that follows."""
    if how is None:
        return
    import copy
    import holopy as hp
    from holopy.scattering import calc_field, Sphere, Spheres
    try:
        def sib(s):
            s2 = copy.copy(s)
            if how == "radius":
                if hasattr(s2, "r"):
                    s2.r = tuple(np.asarray(s2.r) * 1.37) if np.ndim(s2.r) else s2.r * 1.37
                if hasattr(s2, "d"):
                    s2.d = s2.d * 1.37; s2.h = s2.h * 1.37
            elif how == "index":
                s2.n = tuple(np.asarray(s2.n) + 0.11) if np.ndim(s2.n) else s2.n + 0.11
            elif how == "absorption":
                s2.n = tuple(np.asarray(s2.n) + 0.05j) if np.ndim(s2.n) else s2.n + 0.05j
            elif how == "position":
                s2.center = tuple(np.asarray(s2.center, dtype=float) + np.array([0.21, -0.13, 0.4]))
            return s2
        if isinstance(scat, Spheres):
            sc2 = Spheres([sib(m) for m in scat.scatterers], warn=False)
            c = np.asarray(sc2.centers, dtype=float).mean(0); rmax = max(float(np.max(m.r)) for m in sc2.scatterers)
            ext = float(np.abs(np.asarray(sc2.centers) - c).max())
        else:
            sc2 = sib(scat)
            c = np.asarray(sc2.center, dtype=float)
            rmax = max(float(np.max(getattr(sc2, "r", 0.0))), float(getattr(sc2, "d", 0.0)), float(getattr(sc2, "h", 0.0))); ext = 0.0
        wl = o["wl"] * (0.8 if how == "wavelength" else 1.0)
        k = TWO_PI * o["nm"] / wl
        d = hp.detector_points(x=np.array([c[0] + 1.0 / k]), y=np.array([c[1] - 2.0 / k]), z=np.array([c[2] - 1.5 * (rmax + ext) - 45.0 / k]))
        pol = (1.0, 0.0) if type(theory).__name__ == "Tmatrix" else polarization_argument(o)
        calc_field(d, sc2, theory=theory, medium_index=o["nm"], illum_wavelen=wl, illum_polarization=pol)
    except Exception:
        pass     # the warm-up is only there to leave its traces in the theory object


def optics_kwargs(o):
    return dict(medium_index=o["nm"], illum_wavelen=o["wl"], illum_polarization=polarization_argument(o))


def wavevec(o):
    return TWO_PI * o["nm"] / o["wl"]


def make_sphere(sd, o, center):
    from holopy.scattering import Sphere
    k = wavevec(o)
    m = complex(sd["m"][0], sd["m"][1]) if sd["m"][1] else sd["m"][0]
    return Sphere(n=m * o["nm"], r=sd["x"] / k, center=None if center is None else tuple(center))


# ---------------------------------------------------------------------------------------------
# scenes: scatterer + theory + optics + detector, all as plain data
# ---------------------------------------------------------------------------------------------
_pl_above = st.fixed_dictionaries({"fx": rounded(-0.3, 1.3, 4), "fy": rounded(-0.3, 1.3, 4), "kgap": logu(0.5, 300.0)})


def _mie_theory():
    return st.fixed_dictionaries({"t": st.just("mie"), "radial": st.booleans(), "full": st.booleans()})


def _member(xhi):
    return st.fixed_dictionaries({"x": size_param(0.3, xhi), "m": rel_index(mlo_hi[0], mlo_hi[1]) if False else rel_index(),
                                  "dir": st.tuples(st.floats(0.2, math.pi - 0.2), st.floats(0, TWO_PI)).map(list),
                                  "dist": st.floats(1.02, 1.6)})


mlo_hi = (0.5, 2.5)


def scene_sphere(xhi=30.0):
    return st.fixed_dictionaries({"kind": st.just("sphere"), "s": sphere_dimless(0.05, xhi), "pl": _pl_above, "th": _mie_theory(),
                                  # the radius as a numpy scalar of another width (an element of a float32 array of radii)
                                  "rdt": st.sampled_from([None, None, None, None, "float32", "float16", "float64"])})


def scene_layered(xhi=30.0):
    return st.fixed_dictionaries({"kind": st.just("layered"), "x": size_param(0.1, xhi),
                                  "fr": st.lists(st.floats(0.1, 1.0), min_size=2, max_size=4),
                                  "m": st.lists(rel_index(), min_size=4, max_size=4),
                                  "pl": _pl_above, "th": _mie_theory()})


def scene_cluster(theory, kmax=4, xhi=None):
    if theory == "mie":
        th = _mie_theory()
        xhi = xhi or 12.0
    else:
        th = st.fixed_dictionaries({"t": st.just("ms"), "meth": st.sampled_from([0, 1]), "radial": st.booleans(),
                                    "tight": st.booleans()})
        xhi = xhi or 4.0
    mem = st.fixed_dictionaries({"x": size_param(0.3, xhi),
                                 "m": rel_index(False, 0.7, 2.0) if theory != "mie" else rel_index(),
                                 "dir": st.tuples(st.floats(0.2, math.pi - 0.2), st.floats(0, TWO_PI)).map(list),
                                 "dist": st.floats(1.02, 1.6)})
    return st.fixed_dictionaries({"kind": st.just("cluster"), "mem": st.lists(mem, min_size=2, max_size=kmax),
                                  "pl": _pl_above, "th": th})


def scene_axisym(kind):
    asp = st.floats(math.log(0.3), math.log(3.0)).map(math.exp) if kind == "spheroid" else \
        st.floats(math.log(0.5), math.log(2.0)).map(math.exp)
    ang = st.one_of(st.floats(0.0, math.pi), st.sampled_from([0.0, math.pi / 2, math.pi / 4]))
    return st.fixed_dictionaries({"kind": st.just(kind), "xv": size_param(0.3, 6.0), "aspect": asp,
                                  "m": rel_index(None, 1.05, 1.8).map(lambda t: [t[0], min(t[1], 0.1)]),
                                  "rot": st.tuples(ang, ang, ang).map(list),
                                  "pl": st.fixed_dictionaries({"fx": rounded(-0.3, 1.3, 4), "fy": rounded(-0.3, 1.3, 4),
                                                               "kgap": logu(20.0, 300.0)}),
                                  "th": st.just({"t": "tmatrix"})})


def scene_lens(which, xhi=20.0):
    if which == "mielens":
        th = st.fixed_dictionaries({"t": st.just("mielens"), "lens_angle": rounded(0.1, 1.4, 4)})
    elif which == "amielens":
        th = st.fixed_dictionaries({"t": st.just("amielens"), "lens_angle": rounded(0.1, 1.2, 4),
                                    "ab": st.one_of(rounded(-3, 3, 3), st.lists(rounded(-3, 3, 3), min_size=1, max_size=3))})
    else:
        th = st.fixed_dictionaries({"t": st.just("lens"), "lens_angle": rounded(0.1, 1.4, 4),
                                    "q": st.tuples(st.integers(20, 36), st.integers(20, 36)).map(list),
                                    "inner": st.just("mie")})
    return st.fixed_dictionaries({"kind": st.just("sphere"), "s": sphere_dimless(0.1, xhi, None, 1.05, 2.5),
                                  "pl": st.fixed_dictionaries({"fx": rounded(-0.3, 1.3, 4), "fy": rounded(-0.3, 1.3, 4),
                                                               "kz": st.one_of(st.floats(-150.0, 300.0), st.floats(-20.0, 40.0))}),
                                  "th": th})


def build_theory(th):
    from holopy.scattering import Mie, Multisphere, Tmatrix
    from holopy.scattering.theory import MieLens, AberratedMieLens, Lens
    t = th["t"]
    if t == "auto":
        return "auto"
    if t == "mie":
        return Mie(compute_escat_radial=th.get("radial", True), full_radial_dependence=th.get("full", True))
    if t == "ms":
        kw = dict(qeps1=1e-9, qeps2=1e-12, eps=1e-9) if th.get("tight") else {}
        if th.get("tight") == "converged":
            # iterate to the roundoff floor, so that the stopping rule cannot turn an input perturbation of one
            # ulp into a visible step (one iteration more or less)
            kw = dict(qeps1=1e-14, qeps2=1e-16, eps=1e-26, niter=2000)
        return Multisphere(meth=th.get("meth", 1), compute_escat_radial=th.get("radial", False), **kw)
    if t == "tmatrix":
        return Tmatrix()
    acc = th.get("acc") or {}
    if t == "mielens":
        return MieLens(lens_angle=th["lens_angle"], calculator_accuracy_kwargs=dict(acc))
    if t == "amielens":
        return AberratedMieLens(spherical_aberration=th["ab"], lens_angle=th["lens_angle"],
                                calculator_accuracy_kwargs=dict(acc))
    if t == "lens":
        inner = {"mie": lambda: Mie(False, False), "tmatrix": Tmatrix,
                 "ms": lambda: Multisphere(qeps1=1e-9, qeps2=1e-12, eps=1e-9)}[th.get("inner", "mie")]()
        return Lens(th["lens_angle"], inner, quad_npts_theta=th["q"][0], quad_npts_phi=th["q"][1])
    raise ValueError(t)


def is_lens(th):
    return th["t"] in ("mielens", "amielens", "lens")


def build_scene(sc, o, det, scale=1.0):
    """Returns (scatterer, theory, info).  `scale` multiplies every length (unit tests of C04)."""
    from holopy.scattering import Sphere, Spheres, Spheroid, Cylinder
    k = wavevec(o)
    unit = o["wl"] / o["nm"]
    nm = o["nm"]
    kind = sc["kind"]
    th = sc["th"]
    theory = build_theory(th)
    xmin, xmax, ymin, ymax, zmax = detector_xy_extent(det, unit)
    pl = sc["pl"]

    def cidx(m):
        return (complex(m[0], m[1]) if m[1] else m[0]) * nm

    if kind == "sphere":
        r = sc["s"]["x"] / k
        r_arg = None
        if sc.get("rdt"):
            r_arg = getattr(np, sc["rdt"])(r)
            r = float(r_arg)          # the value the scalar holds; everything else is derived from it
        if "kz" in pl:
            wx = max(xmax - xmin, 2 * unit); wy = max(ymax - ymin, 2 * unit)
            c = [xmin + pl["fx"] * wx, ymin + pl["fy"] * wy, zmax + pl["kz"] / k]
        else:
            c = place(pl, det, unit, r, k)
        s = Sphere(n=cidx(sc["s"]["m"]), r=r if r_arg is None else r_arg, center=tuple(c))
        return s, theory, {"centers": [c], "radii": [r]}
    if kind == "layered":
        nl = len(sc["fr"])
        fr = np.cumsum(sc["fr"]); fr = fr / fr[-1]
        radii = [float(f * sc["x"] / k) for f in fr]
        for i in range(1, nl):
            if radii[i] <= radii[i - 1]:
                radii[i] = radii[i - 1] * 1.0001
        c = place(pl, det, unit, radii[-1], k)
        s = Sphere(n=[cidx(m) for m in sc["m"][:nl]], r=radii, center=tuple(c))
        return s, theory, {"centers": [c], "radii": [radii[-1]]}
    if kind == "cluster":
        rs = [m["x"] / k for m in sc["mem"]]
        c0 = np.array(place(pl, det, unit, rs[0], k))
        cs = [c0]
        for m, r in zip(sc["mem"][1:], rs[1:]):
            th_, ph_ = m["dir"]
            u = np.array([math.sin(th_) * math.cos(ph_), math.sin(th_) * math.sin(ph_), math.cos(th_)])
            d = m["dist"] * (rs[0] + r)
            if m.get("kd") is not None:
                # centre distance from the first member at a zero of a Riccati-Bessel function of k*d (multiples of
                # pi, roots of tan x = x): the first such value that keeps the two spheres apart
                zs = sorted([j * math.pi for j in range(1, 40)] + [4.493409457909064, 7.725251836937707, 10.904121659428899, 14.066193912831473,
                                                                    17.220755271930768, 20.371302959287563])
                start = int(m["kd"]) % len(zs)
                for z_ in zs[start:] + zs:
                    if z_ / k >= 1.02 * (rs[0] + r):
                        d = z_ / k
                        break
            for _ in range(60):
                p = c0 + u * d
                if all(np.linalg.norm(p - q) >= 1.01 * (r + rq) for q, rq in zip(cs, rs)):
                    break
                d *= 1.2
            cs.append(p)
        # keep every sphere above the detector plane
        low = min(c[2] - r for c, r in zip(cs, rs))
        need = zmax + 0.5 / k
        if low < need:
            cs = [c + np.array([0, 0, need - low]) for c in cs]
        spheres = [Sphere(n=cidx(m["m"]), r=r, center=tuple(float(t) for t in c)) for m, r, c in zip(sc["mem"], rs, cs)]
        return Spheres(spheres, warn=False), theory, {"centers": [list(map(float, c)) for c in cs], "radii": rs}
    if kind in ("spheroid", "cylinder"):
        xv = sc["xv"]; asp = sc["aspect"]
        rv = xv / k
        if kind == "spheroid":
            # volume 4/3 pi a^2 c with c = asp * a
            a = rv / asp ** (1.0 / 3.0); cc = asp * a
            rmax = max(a, cc)
            c = place(pl, det, unit, rmax, k)
            s = Spheroid(n=cidx(sc["m"]), r=(a, cc), rotation=tuple(sc["rot"]), center=tuple(c))
        else:
            # volume pi (d/2)^2 h with h = asp * d
            dd = (16.0 / 3.0 / asp) ** (1.0 / 3.0) * rv; h = asp * dd
            rmax = 0.5 * math.hypot(dd, h)
            c = place(pl, det, unit, rmax, k)
            s = Cylinder(n=cidx(sc["m"]), h=h, d=dd, rotation=tuple(sc["rot"]), center=tuple(c))
        return s, theory, {"centers": [c], "radii": [rmax]}
    raise ValueError(kind)


def fixed_z_detector(max_side=10, max_pts=10):
    """detectors whose points share one z (required by the lens theories)."""
    pts = st.lists(st.tuples(rounded(-15, 15, 4), rounded(-15, 15, 4)), min_size=1, max_size=max_pts).map(
        lambda l: {"kind": "points", "pts": [[a, b, 0.0] for a, b in l]})
    return st.one_of(grid_detector(max_side), pts)


def case_strategy(kinds, max_side=8, any_norm=False):
    """{"o", "det", "sc"} with constraints between them respected by construction."""
    opts = []
    for kd in kinds:
        if kd == "sphere":
            opts.append(st.fixed_dictionaries({"o": optics(any_norm), "det": any_detector(max_side), "sc": scene_sphere()}))
        elif kd == "layered":
            opts.append(st.fixed_dictionaries({"o": optics(any_norm), "det": any_detector(max_side), "sc": scene_layered()}))
        elif kd == "cluster_mie":
            opts.append(st.fixed_dictionaries({"o": optics(any_norm), "det": any_detector(max_side), "sc": scene_cluster("mie")}))
        elif kd == "cluster_ms":
            opts.append(st.fixed_dictionaries({"o": optics(any_norm), "det": any_detector(max_side), "sc": scene_cluster("ms")}))
        elif kd in ("spheroid", "cylinder"):
            opts.append(st.fixed_dictionaries({"o": optics(False, pol=st.just([1.0, 0.0])), "det": any_detector(max_side),
                                               "sc": scene_axisym(kd)}))
        elif kd in ("mielens", "amielens", "lens"):
            opts.append(st.fixed_dictionaries({"o": optics(any_norm), "det": fixed_z_detector(max_side), "sc": scene_lens(kd)}))
        else:
            raise ValueError(kd)
    return st.one_of(*opts)


def scene_label(sc):
    return sc["kind"] + "+" + sc["th"]["t"]


def lens_quad_order(kz, krho_max, beta, x):
    """Quadrature order at which Lens(...) is converged (calibrated in DESIGN C08): the integrand
    oscillates with phase |kz|(1-cos b) + k rho sin b in theta and k rho sin b in phi, and the Mie
    amplitude with ~x lobes over [0, b]."""
    phase = abs(kz) * (1 - math.cos(beta)) + krho_max * math.sin(beta)
    return int(max(math.ceil(phase / 2) + 30, math.ceil(1.5 * krho_max * math.sin(beta)) + 40,
                   math.ceil(4 * x * beta / math.pi) + 30))
