"""Independent textbook Mie (Bohren & Huffman ch.4) using scipy only."""
import numpy as np
from scipy.special import spherical_jn, spherical_yn

def nmax_for(x):
    return int(np.ceil(x + 4.05 * x ** (1 / 3) + 2)) + 15

def mie_ab_direct(m, x, nmax=None):
    """a_n, b_n straight from B&H eq. 4.53 with scipy spherical Bessel functions of complex
    argument (overflows for |Im(m x)| > ~600; kept as a cross-check of mie_ab)."""
    if nmax is None: nmax = nmax_for(x)
    n = np.arange(1, nmax + 1)
    mx = m * x
    jx = spherical_jn(n, x); djx = spherical_jn(n, x, derivative=True)
    yx = spherical_yn(n, x); dyx = spherical_yn(n, x, derivative=True)
    jmx = spherical_jn(n, mx); djmx = spherical_jn(n, mx, derivative=True)
    psi_x = x * jx; dpsi_x = jx + x * djx
    xi_x = x * (jx + 1j * yx); dxi_x = (jx + 1j * yx) + x * (djx + 1j * dyx)
    psi_mx = mx * jmx; dpsi_mx = jmx + mx * djmx
    a = (m * psi_mx * dpsi_x - psi_x * dpsi_mx) / (m * psi_mx * dxi_x - xi_x * dpsi_mx)
    b = (psi_mx * dpsi_x - m * psi_x * dpsi_mx) / (psi_mx * dxi_x - m * xi_x * dpsi_mx)
    return a, b


def mie_ab(m, x, nmax=None):
    """a_n, b_n by the textbook BHMIE scheme (B&H eq. 4.88/4.89): logarithmic derivative
    D_n(mx) by downward recurrence, psi_n, xi_n of the real argument from scipy.  Robust for
    absorbing spheres (no exponentially large intermediate)."""
    if nmax is None: nmax = nmax_for(x)
    m = complex(m)
    mx = m * x
    nmx = int(max(nmax, abs(mx)) + 12 * abs(mx) ** (1 / 3) + 80)
    D = np.zeros(nmx + 1, dtype=complex)
    for n in range(nmx, 0, -1):
        D[n - 1] = n / mx - 1.0 / (D[n] + n / mx)
    n = np.arange(0, nmax + 1)
    j = spherical_jn(n, x); y = spherical_yn(n, x)
    psi = x * j
    xi = x * (j + 1j * y)
    nn = n[1:]
    Dn = D[1:nmax + 1]
    ta = Dn / m + nn / x
    tb = Dn * m + nn / x
    a = (ta * psi[1:] - psi[:-1]) / (ta * xi[1:] - xi[:-1])
    b = (tb * psi[1:] - psi[:-1]) / (tb * xi[1:] - xi[:-1])
    return a, b


def pi_tau(theta, nmax):
    mu = np.cos(theta)
    pi = np.zeros((nmax + 1,) + np.shape(theta)); tau = np.zeros_like(pi)
    pi[1] = 1; tau[1] = mu
    for n in range(2, nmax + 1):
        pi[n] = (2 * n - 1) / (n - 1) * mu * pi[n - 1] - n / (n - 1) * pi[n - 2]
        tau[n] = n * mu * pi[n] - (n + 1) * pi[n - 1]
    return pi[1:], tau[1:]

def S1S2(m, x, theta, nmax=None):
    a, b = mie_ab(m, x, nmax); nmax = len(a)
    n = np.arange(1, nmax + 1); pre = (2 * n + 1) / (n * (n + 1))
    pi, tau = pi_tau(np.atleast_1d(theta), nmax)
    S1 = np.einsum('n,nt->t', pre * a, pi) + np.einsum('n,nt->t', pre * b, tau)
    S2 = np.einsum('n,nt->t', pre * a, tau) + np.einsum('n,nt->t', pre * b, pi)
    return S1, S2

def efficiencies(m, x):
    a, b = mie_ab(m, x); n = np.arange(1, len(a) + 1)
    qext = 2 / x**2 * np.sum((2*n+1) * (a + b).real)
    qsca = 2 / x**2 * np.sum((2*n+1) * (abs(a)**2 + abs(b)**2))
    g = 4 / (x**2 * qsca) * (np.sum(n[:-1]*(n[:-1]+2)/(n[:-1]+1) * (a[:-1]*np.conj(a[1:]) + b[:-1]*np.conj(b[1:])).real)
                             + np.sum((2*n+1)/(n*(n+1)) * (a*np.conj(b)).real))
    return qsca, qext, g

def near_field(m, x, kr, theta, phi, pol):
    """Full scattered field (B&H 4.45) in cartesian comps of the B&H frame (z along propagation),
    for unit incident amplitude polarised along pol=(px,py). Incident phase exp(ikz) with origin at sphere."""
    a, b = mie_ab(m, x); nmax = len(a)
    kr = np.atleast_1d(kr).astype(float); theta = np.atleast_1d(theta); phi = np.atleast_1d(phi)
    n = np.arange(1, nmax + 1)[:, None]
    h = spherical_jn(n, kr[None, :]) + 1j * spherical_yn(n, kr[None, :])
    dh = spherical_jn(n, kr[None, :], derivative=True) + 1j * spherical_yn(n, kr[None, :], derivative=True)
    dxi_over_rho = h / kr[None, :] + dh     # [rho h]'/rho
    pi, tau = pi_tau(theta, nmax)
    En = (1j ** n) * (2 * n + 1) / (n * (n + 1))
    an = a[:, None]; bn = b[:, None]
    # for x-polarised light (phi measured from pol direction):
    Er_c = np.sum(En * 1j * an * n * (n + 1) * np.sin(theta)[None] * pi * h / kr[None], axis=0)   # times cos(phi')
    Eth_c = np.sum(En * (1j * an * tau * dxi_over_rho - bn * pi * h), axis=0)                    # times cos(phi')
    Eph_s = np.sum(En * (-1j * an * pi * dxi_over_rho + bn * tau * h), axis=0)                   # times sin(phi')
    px, py = pol; nrm = np.hypot(px, py); px, py = px / nrm, py / nrm
    ang = np.arctan2(py, px)
    phr = phi - ang
    Er = Er_c * np.cos(phr); Eth = Eth_c * np.cos(phr); Eph = Eph_s * np.sin(phr)
    st, ct, sp, cp = np.sin(theta), np.cos(theta), np.sin(phi), np.cos(phi)
    Ex = Er * st * cp + Eth * ct * cp - Eph * sp
    Ey = Er * st * sp + Eth * ct * sp + Eph * cp
    Ez = Er * ct - Eth * st
    return np.array([Ex, Ey, Ez])


def near_field_options(m, x, kr, theta, phi, pol, full_radial=True, radial_component=True, nmax=None):
    """As near_field, with HoloPy's two Mie options mirrored *analytically*:
    full_radial=False uses the asymptotic h_n(kr) -> (-i)^(n+1) e^{ikr}/(kr) (and its derivative
    form [rho h]'/rho -> (-i)^n e^{ikr}/(kr)); radial_component=False drops E_r."""
    a, b = mie_ab(m, x, nmax); nmax = len(a)
    kr = np.atleast_1d(kr).astype(float); theta = np.atleast_1d(theta); phi = np.atleast_1d(phi)
    n = np.arange(1, nmax + 1)[:, None]
    hfull = spherical_jn(n, kr[None, :]) + 1j * spherical_yn(n, kr[None, :])
    if full_radial:
        h = hfull
        dh = spherical_jn(n, kr[None, :], derivative=True) + 1j * spherical_yn(n, kr[None, :], derivative=True)
        dxi_over_rho = h / kr[None, :] + dh
    else:
        e = np.exp(1j * kr)[None, :] / kr[None, :]
        h = ((-1j) ** (n + 1)) * e
        dxi_over_rho = ((-1j) ** n) * e
    pi, tau = pi_tau(theta, nmax)
    En = (1j ** n) * (2 * n + 1) / (n * (n + 1))
    an = a[:, None]; bn = b[:, None]
    # HoloPy documents the asymptotic option for the amplitude scattering matrix (transverse
    # components); the non-radiative radial component always uses the full Hankel function.
    Er_c = np.sum(En * 1j * an * n * (n + 1) * np.sin(theta)[None] * pi * hfull / kr[None], axis=0)
    Eth_c = np.sum(En * (1j * an * tau * dxi_over_rho - bn * pi * h), axis=0)
    Eph_s = np.sum(En * (-1j * an * pi * dxi_over_rho + bn * tau * h), axis=0)
    if not radial_component:
        Er_c = np.zeros_like(Er_c)
    px, py = pol; nrm = np.hypot(px, py); px, py = px / nrm, py / nrm
    ang = np.arctan2(py, px)
    phr = phi - ang
    Er = Er_c * np.cos(phr); Eth = Eth_c * np.cos(phr); Eph = Eph_s * np.sin(phr)
    st, ct, sp, cp = np.sin(theta), np.cos(theta), np.sin(phi), np.cos(phi)
    Ex = Er * st * cp + Eth * ct * cp - Eph * sp
    Ey = Er * st * sp + Eth * ct * sp + Eph * cp
    Ez = Er * ct - Eth * st
    return np.array([Ex, Ey, Ez])


def wiscombe(x):
    """Textbook truncation order (Wiscombe 1980; B&H appendix A)."""
    return int(np.round(abs(x + 4.05 * x ** (1. / 3.) + 2)))


def holopy_field(n_sphere, radius, center, pts, medium_index, wavelen, pol,
                 full_radial=True, radial_component=True, nmax=None):
    """Scattered field at detector points pts (N,3) in HoloPy's documented geometry:
    offset (x-x0, y-y0, z0-z), result multiplied by exp(-i k z0).  Returns (N,3) complex."""
    k = 2 * np.pi * medium_index / wavelen
    m = n_sphere / medium_index
    x = k * radius
    pts = np.asarray(pts, dtype=float)
    dx = pts[:, 0] - center[0]; dy = pts[:, 1] - center[1]; dz = center[2] - pts[:, 2]
    r = np.sqrt(dx * dx + dy * dy + dz * dz)
    theta = np.arctan2(np.hypot(dx, dy), dz)
    phi = np.arctan2(dy, dx)
    E = near_field_options(m, x, k * r, theta, phi, pol, full_radial, radial_component, nmax)
    return (E * np.exp(-1j * k * center[2])).T
