"""Independent textbook Mie (Bohren & Huffman ch.4) using scipy only."""
import numpy as np
from scipy.special import spherical_jn, spherical_yn

def nmax_for(x):
    return int(np.ceil(x + 4.05 * x ** (1 / 3) + 2)) + 15

def mie_ab(m, x, nmax=None):
    """a_n, b_n (B&H 4.53) via Riccati-Bessel with scipy spherical bessels; m complex ok"""
    if nmax is None: nmax = nmax_for(x)
    n = np.arange(1, nmax + 1)
    mx = m * x
    jx = spherical_jn(n, x); djx = spherical_jn(n, x, derivative=True)
    yx = spherical_yn(n, x); dyx = spherical_yn(n, x, derivative=True)
    jmx = spherical_jn(n, mx); djmx = spherical_jn(n, mx, derivative=True)
    psi_x = x * jx; dpsi_x = jx + x * djx
    xi_x = x * (jx + 1j * yx); dxi_x = (jx + 1j * yx) + x * (djx + 1j * dyx)
    psi_mx = mx * jmx; dpsi_mx = jmx + mx * djmx
    a = (m * psi_mx * dpsi_x - psi_x * dpsi_mx) / (m * psi_mx * dxi_x - xi_x * dpsi_mx)
    b = (psi_mx * dpsi_x - m * psi_x * dpsi_mx) / (psi_mx * dxi_x - m * xi_x * dpsi_mx)
    return a, b

def pi_tau(theta, nmax):
    mu = np.cos(theta)
    pi = np.zeros((nmax + 1,) + np.shape(theta)); tau = np.zeros_like(pi)
    pi[1] = 1; tau[1] = mu
    for n in range(2, nmax + 1):
        pi[n] = (2 * n - 1) / (n - 1) * mu * pi[n - 1] - n / (n - 1) * pi[n - 2]
        tau[n] = n * mu * pi[n] - (n + 1) * pi[n - 1]
    return pi[1:], tau[1:]

def S1S2(m, x, theta):
    a, b = mie_ab(m, x); nmax = len(a)
    n = np.arange(1, nmax + 1); pre = (2 * n + 1) / (n * (n + 1))
    pi, tau = pi_tau(np.atleast_1d(theta), nmax)
    S1 = np.einsum('n,nt->t', pre * a, pi) + np.einsum('n,nt->t', pre * b, tau)
    S2 = np.einsum('n,nt->t', pre * a, tau) + np.einsum('n,nt->t', pre * b, pi)
    return S1, S2

def efficiencies(m, x):
    a, b = mie_ab(m, x); n = np.arange(1, len(a) + 1)
    qext = 2 / x**2 * np.sum((2*n+1) * (a + b).real)
    qsca = 2 / x**2 * np.sum((2*n+1) * (abs(a)**2 + abs(b)**2))
    g = 4 / (x**2 * qsca) * (np.sum(n[:-1]*(n[:-1]+2)/(n[:-1]+1) * (a[:-1]*np.conj(a[1:]) + b[:-1]*np.conj(b[1:])).real)
                             + np.sum((2*n+1)/(n*(n+1)) * (a*np.conj(b)).real))
    return qsca, qext, g

def near_field(m, x, kr, theta, phi, pol):
    """Full scattered field (B&H 4.45) in cartesian comps of the B&H frame (z along propagation),
    for unit incident amplitude polarised along pol=(px,py). Incident phase exp(ikz) with origin at sphere."""
    a, b = mie_ab(m, x); nmax = len(a)
    kr = np.atleast_1d(kr).astype(float); theta = np.atleast_1d(theta); phi = np.atleast_1d(phi)
    n = np.arange(1, nmax + 1)[:, None]
    h = spherical_jn(n, kr[None, :]) + 1j * spherical_yn(n, kr[None, :])
    dh = spherical_jn(n, kr[None, :], derivative=True) + 1j * spherical_yn(n, kr[None, :], derivative=True)
    dxi_over_rho = h / kr[None, :] + dh     # [rho h]'/rho
    pi, tau = pi_tau(theta, nmax)
    En = (1j ** n) * (2 * n + 1) / (n * (n + 1))
    an = a[:, None]; bn = b[:, None]
    # for x-polarised light (phi measured from pol direction):
    Er_c = np.sum(En * 1j * an * n * (n + 1) * np.sin(theta)[None] * pi * h / kr[None], axis=0)   # times cos(phi')
    Eth_c = np.sum(En * (1j * an * tau * dxi_over_rho - bn * pi * h), axis=0)                    # times cos(phi')
    Eph_s = np.sum(En * (-1j * an * pi * dxi_over_rho + bn * tau * h), axis=0)                   # times sin(phi')
    px, py = pol; nrm = np.hypot(px, py); px, py = px / nrm, py / nrm
    ang = np.arctan2(py, px)
    phr = phi - ang
    Er = Er_c * np.cos(phr); Eth = Eth_c * np.cos(phr); Eph = Eph_s * np.sin(phr)
    st, ct, sp, cp = np.sin(theta), np.cos(theta), np.sin(phi), np.cos(phi)
    Ex = Er * st * cp + Eth * ct * cp - Eph * sp
    Ey = Er * st * sp + Eth * ct * sp + Eph * cp
    Ez = Er * ct - Eth * st
    return np.array([Ex, Ey, Ez])
