"""Import HoloPy from /repo's working tree with the freshly built extensions injected.

`import vf.boot` must happen before numpy/holopy are imported anywhere in the process.
"""
import os
import sys

for _k in ("OMP_NUM_THREADS", "OPENBLAS_NUM_THREADS", "MKL_NUM_THREADS", "NUMEXPR_NUM_THREADS"):
    os.environ[_k] = "1"
os.environ.setdefault("MPLBACKEND", "Agg")
os.environ.setdefault("HOLOPY_VERIF", "1")

import importlib.abc
import importlib.machinery
import importlib.util
import warnings

from . import build_ext

REPO = build_ext.REPO
_PATHS = None


class _ExtFinder(importlib.abc.MetaPathFinder):
    def __init__(self, paths):
        self.map = {}
        for name, p in paths.items():
            pkg = build_ext.EXTS[name][0]
            self.map[pkg + "." + name] = p

    def find_spec(self, fullname, path, target=None):
        p = self.map.get(fullname)
        if p is None:
            return None
        loader = importlib.machinery.ExtensionFileLoader(fullname, p)
        return importlib.util.spec_from_file_location(fullname, p, loader=loader)


def boot(build=True):
    """Returns the holopy module imported from REPO (asserted)."""
    global _PATHS
    if REPO not in sys.path[:1]:
        sys.path.insert(0, REPO)
    if build and _PATHS is None:
        _PATHS = build_ext.ensure_built(REPO)
        sys.meta_path.insert(0, _ExtFinder(_PATHS))
    warnings.filterwarnings("ignore")
    import holopy
    assert os.path.realpath(holopy.__file__).startswith(os.path.realpath(REPO) + os.sep), \
        "wrong holopy imported: %s" % holopy.__file__
    return holopy


LIMITS = build_ext.parsed_limits
