"""Regenerates MANIFEST.json from the property modules that exist (keeps it valid at all times)."""
import json
import os

VERIF = os.path.dirname(os.path.dirname(os.path.abspath(__file__)))

LEVEL = {
    "C01": ("identity vs harness arithmetic on calc_field, absolute oracle from an independent textbook Mie near field, "
            "also channel by channel for multi-channel illumination, label/metadata checks and bit-exact history independence "
            "over generated call orders",
            "differential + model-based (history) property testing"),
    "C02": ("differential testing of four sphere solvers (Fortran Mie, SCSMFO one-sphere cluster, pure-Python series, "
            "independent textbook series) and metamorphic layered-sphere reductions over generated spheres",
            "differential property-based testing against an independent reference implementation"),
    "C03": ("cross-section identities (energy conservation, optical theorem across entry points, solid-angle "
            "quadrature, Rayleigh limit, cluster = sphere) over generated spheres",
            "property-based testing with analytic/quadrature oracles"),
    "C04": ("metamorphic scaling relations over 12 decades and index reduction, all theories; the theory chosen by default "
            "must not depend on the unit; micrometre floats vs nanometre integers", "metamorphic property-based testing"),
    "C05": ("metamorphic shift / rotation / mirror covariance for all theories and polarization angles", "metamorphic property-based testing"),
    "C06": ("superposition, polarization linearity and channel-by-channel differential oracle", "metamorphic + differential property-based testing"),
    "C07": ("same physical point through grid / point list / crop / subset representations, subset-selection invariants, "
            "purity over generated call sequences", "metamorphic + stateful property-based testing"),
    "C08": ("differential MieLens vs Lens(Mie) with convergence-aware generation, refinement, zero-aberration and "
            "interpolation-independence relations", "differential property-based testing"),
    "C09": ("permutation (exhaustive for k<=4) and rotation metamorphic relations on SCSMFO with tight options (fields, and "
            "cross sections under a joint rotation of cluster and polarization), one-sphere limit, and a reference predicate for the default-theory rule with boundary-aimed generation",
            "metamorphic property-based testing + reference-model predicate"),
    "C10": ("sphere-limit differential vs Mie at generated azimuths, symmetry relations, and fork-isolated fuzzing of "
            "orientation/size inputs where the only violation is death of the interpreter",
            "differential property-based testing + fault-isolating fuzzing"),
    "C11": ("generated scatterer/theory/optics templates with shared, named and transformed priors compared with an "
            "independent place map (pools of five priors and models with an own prior at every place, up to ~30 parameters); "
            "bounded-exhaustive tie subsets incl. repeated and taken names; rebuild round trip",
            "model-based property testing (reference mapping model)"),
    "C12": ("harness-side Gaussian log-likelihood and log-prior formulas vs the model on generated models, data and "
            "parameter vectors incl. out-of-support; call counting for short-circuit",
            "differential property-based testing against a reference formula"),
    "C13": ("invariants of fits on generated noise-free problems (fixed point, no-worse-than-guess, bounds, recovery, "
            "bookkeeping, repeatability, reload)", "property-based testing with invariant oracles"),
    "C14": ("density/log-density/sampler/algebra laws for generated priors and expression trees with an independent "
            "evaluator", "property-based testing with reference evaluator and statistical oracle"),
    "C15": ("grammar-generated HoloPy objects through save/load with constructor-argument equality, full-state equality with a "
            "freshly built object and text fixpoint; models with generated ties of every kind; bounded-exhaustive explicit None over every defaulted constructor argument",
            "round-trip property-based testing (grammar-based generation)"),
    "C16": ("round trips through HDF5/TIFF/raster files written per case, averaging and metadata-edit invariants",
            "round-trip property-based testing"),
    "C17": ("fft/ifft inverse over exhaustively enumerated small shapes plus random shapes; algebraic group/linearity/"
            "energy laws of propagate", "property-based testing with algebraic oracles; bounded-exhaustive shapes"),
    "C18": ("defining identities of the image-processing tools on generated images, bounded-exhaustive crops and dead "
            "pixels, accumulator vs batch statistics over push sequences, centre finder on computed holograms",
            "property-based + stateful testing against batch reference"),
    "C19": ("inverse/compose/norm/range laws of coordinate conversions, rotation matrix vs independent z-y-z product, "
            "rigid motion of composites", "property-based testing with algebraic oracles"),
    "C20": ("containment vs extended-precision analytic inequality with abstention at the surface, overlap bookkeeping "
            "vs harness pair computation", "property-based testing against a reference predicate"),
}


def main():
    checks = []
    present = []
    for i in range(1, 21):
        pid = "C%02d" % i
        if not os.path.exists(os.path.join(VERIF, "vf", "props", pid.lower() + ".py")):
            continue
        present.append(pid)
        text, tech = LEVEL[pid]
        checks.append({
            "property_id": pid,
            "quick_cmd": "./check %s --tier quick" % pid,
            "thorough_cmd": "./check %s --tier thorough" % pid,
            "evidence_file": "evidence/%s.json" % pid,
            "replay_cmd_template": "./check %s --replay {path}" % pid,
            "engine": "hypothesis-sharded",
            "level_claimed": {
                "category": "exploration",
                "text": "Generated-input search (Hypothesis, 16 shards) against explicit oracles: " + text +
                        ". Holds on the N cases reported in evidence; never establishes absence.",
                "design_ref": "DESIGN.md section 5, " + pid,
            },
            "level_note": "Trusted base: numpy/scipy special functions, Hypothesis, the f2py build recipe "
                          "(vf/build_ext.py) which compiles /repo's Fortran as-is; tolerances stated per sub-check in evidence.",
            "technique": tech,
        })
    na = []
    for i in range(1, 21):
        pid = "C%02d" % i
        if pid not in present:
            na.append({"property_id": pid, "reason": "check not built yet (planned, see DESIGN.md section 5); not claimed until its module exists"})
    man = {
        "version": 1,
        "setup_cmd": "/venv/bin/python -c 'import hypothesis' 2>/dev/null || /venv/bin/pip install --no-index "
                     "--find-links /opt/veriftools/wheels hypothesis; /venv/bin/python vf/build_ext.py",
        "hooks": {
            "guard": "HOLOPY_VERIF",
            "enable": "no source hooks: the harness imports /repo's working tree directly and injects the f2py "
                      "extensions it builds from /repo's Fortran (vf/boot.py); HOLOPY_VERIF=1 is exported by the harness only",
            "baseline_off_cmd": "cd /repo && /venv/bin/python -m pytest -ra -q -p no:cacheprovider --timeout=900 "
                                "--continue-on-collection-errors",
            "source_commits": [],
            "add_only": True,
        },
        "engines": [{
            "name": "hypothesis-sharded", "path": "vf/runner.py",
            "serves_properties": present,
            "kind_free_text": "Hypothesis 6.168 strategies -> JSON cases -> pure run_case oracles; 16 forked shards; "
                              "fork-per-case crash isolation; shrunk case = replay file",
        }],
        "checks": checks,
        "not_applicable": na,
        "notes": "All checks: ./check <id> [--tier quick|thorough] [--seed N | VERIF_SEED] [--replay file]. "
                 "Exit 0 held, 1 VIOLATION, 2 harness error. known_findings.json lists recorded defects.",
    }
    with open(os.path.join(VERIF, "MANIFEST.json"), "w") as fh:
        json.dump(man, fh, indent=1)
    print("manifest:", present)


if __name__ == "__main__":
    main()
