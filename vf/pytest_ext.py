"""Run repo tests with the built Fortran extensions injected (diagnostic only)."""
import sys
from vf import boot
boot.boot()
import pytest
sys.exit(pytest.main(sys.argv[1:]))
